"""Unit `robotics` (feature `robotics`): the expression evaluator of src/robotics.rs.  Floats are uninterpreted; what is
proved is totality (no panic, termination, bounded nesting), cursor discipline and which float operations are applied."""
from contracts_types import *
NAME = 'robotics'
FEATURES = ['robotics']
USES = ['use vstd::string::*;', 'use vstd::utf8::*;', 'use vstd::slice::*;']
PRELUDE = ['common.shim.rs', 'error.spec.rs', 'crop.spec.rs', 'crop.shim.rs', 'robotics.shim.rs', 'robotics.spec.rs']
SUBST = SUBST_COMMON
R = 'src/robotics.rs'
P = ['C19', 'C01']
IP = 'impl Parser/'
ERR = (r'self\.err\(', 'hook_error_at(self.loc, ', None, 'R8')
PEEKGET = (r'self\.b\.get\(([^()]+)\)\.copied\(\)', r'bytes_get(self.b, \1)', None, 'R8')
DIGIT = (r'\b(\w+)\.is_ascii_digit\(\)', r'u8_is_ascii_digit(\1)', None, 'R8')
BOR = [(r'used_unit \|= uu;', 'used_unit = used_unit || uu;', None, 'R32'), (r'saw_plain \|= sp;', 'saw_plain = saw_plain || sp;', None, 'R32')]
KEEP = 'final(self).wf() && final(self).same_input(old(self)) && final(self).depth == old(self).depth && final(self).sexagesimal_is_time == old(self).sexagesimal_is_time'

ITEMS = location_types() + budget_types() + error_types() + [
    dict(src='src/tags.rs', path='enum SfTag', derive='#[derive(Clone, Copy, PartialEq, Eq, Hash, Structural)]'),
    dict(src=R, path='const MAX_EXPR_DEPTH'),
    dict(src=R, path='const MAX_NUM_DIGITS'),
    dict(src=R, path='type Eval'),
    dict(src=R, path='struct Parser'),
    dict(src=R, path=IP + 'fn eof', props=P, ensures=[('value', 'r == (self.i >= self.b@.len())')]),
    dict(src=R, path=IP + 'fn peek', props=P, rewrites=[PEEKGET],
         ensures=[('value', 'r == (if self.i < self.b@.len() { Some(self.b@[self.i as int]) } else { None::<u8> })')]),
    dict(src=R, path=IP + 'fn bump', props=P,
         requires=[('wf', 'old(self).wf()')],
         ensures=[('consumes_one_byte_if_any', '''r == (if old(self).i < old(self).b@.len() { Some(old(self).b@[old(self).i as int]) } else { None::<u8> })
                    && final(self).i == (if r is Some { old(self).i + 1 } else { old(self).i as int })'''),
                  ('keeps', KEEP)]),
    dict(src=R, path=IP + 'fn is_ws', props=P, ensures=[('value', 'r == (c == 0x20 || c == 0x09 || c == 0x0a || c == 0x0d)')]),
    dict(src=R, path=IP + 'fn skip_ws', props=P,
         requires=[('wf', 'old(self).wf()')],
         ensures=[('keeps', KEEP), ('forward', 'final(self).i >= old(self).i'),
                  ('stops_at_the_first_non_blank', 'final(self).i == skip_ws_pos(old(self).b@, old(self).i as int)')],
         loops={1: dict(invariant=[('inv', 'self.wf() && self.same_input(old(self)) && self.depth == old(self).depth && self.sexagesimal_is_time == old(self).sexagesimal_is_time && self.i >= old(self).i'),
                                   ('same_target', 'skip_ws_pos(self.b@, self.i as int) == skip_ws_pos(old(self).b@, old(self).i as int)')],
                        ensures=[('at_target', 'self.i == skip_ws_pos(self.b@, self.i as int)')],
                        decreases='self.b@.len() - self.i')}),
    dict(src=R, path=IP + 'fn err', trusted=True, props=[], ensures=[('is_hook_error', 'r is HookError')]),
    dict(src=R, path=IP + 'fn enter', props=P,
         requires=[('wf', 'old(self).wf()')],
         ensures=[('C19:nesting_is_counted_and_capped', '''final(self).wf() && final(self).same_input(old(self)) && final(self).i == old(self).i
                    && final(self).sexagesimal_is_time == old(self).sexagesimal_is_time
                    && match r { Ok(_) => old(self).depth < 256 && final(self).depth == old(self).depth + 1,
                                 Err(_) => old(self).depth >= 256 && final(self).depth == old(self).depth }''')],
         canaries=['C19:nesting_is_counted_and_capped']),
    dict(src=R, path=IP + 'fn exit', props=P,
         rewrites=[(r'debug_assert!\(self\.depth > 0\);', 'assert(self.depth > 0);', 1, 'R31')],
         requires=[('wf', 'old(self).wf()'), ('entered', 'old(self).depth > 0')],
         ensures=[('leaves_one_level', '''final(self).wf() && final(self).same_input(old(self)) && final(self).i == old(self).i
                    && final(self).sexagesimal_is_time == old(self).sexagesimal_is_time && final(self).depth == old(self).depth - 1''')]),
    dict(src=R, path='fn is_ident_start', props=P,
         rewrites=[(r'\(c as char\)\.is_ascii_alphabetic\(\)', 'u8_is_ascii_alphabetic(c)', 1, 'R8')],
         ensures=[('value', 'r == (sp_is_alpha(c) || c == 0x5f)')]),
    dict(src=R, path='fn is_ident_cont', props=P,
         rewrites=[(r'\(c as char\)\.is_ascii_alphanumeric\(\)', 'u8_is_ascii_alphanumeric(c)', 1, 'R8')],
         ensures=[('value', 'r == (sp_is_alpha(c) || sp_is_digit(c) || c == 0x5f)')]),
    dict(src=R, path=IP + 'fn starts_ci', props=P,
         rewrites=[(r'kw\.len\(\)', 'str_len(kw)', 1, 'R8'),
                   (r'self\.s\[self\.i\.\.end\]\.eq_ignore_ascii_case\(kw\)', 'str_eq_ignore_ascii_case(str_slice(self.s, self.i, end), kw)', None, 'R8'),
                   (r'self\.b\[self\.i\.\.end\]\.eq_ignore_ascii_case\(kw\.as_bytes\(\)\)', 'bytes_eq_ignore_ascii_case(slice_subrange(self.b, self.i, end), str_as_bytes(kw))', None, 'R8')],
         requires=[('wf', 'self.wf()')],
         ensures=[('C19:keyword_test_is_total_and_case_insensitive', '''r == (self.i + kw.spec_bytes().len() <= self.b@.len()
                    && sp_eq_ci(self.b@.subrange(self.i as int, self.i + kw.spec_bytes().len()), kw.spec_bytes()))''')],
         canaries=['C19:keyword_test_is_total_and_case_insensitive']),
    dict(src=R, path=IP + 'fn read_uint_unders_to_f64', props=P,
         rewrites=[PEEKGET, DIGIT,
                   (r"v = v \* 10\.0 \+ \(c - b'0'\) as f64;", "v = fadd(fmul(v, 10.0), u8_to_f64(c - b'0'));", 1, 'R8'),
                   (r'debug_assert!\(self\.i > start\);', 'assert(self.i > start);', 1, 'R31')],
         requires=[('wf', 'old(self).wf()')],
         ensures=[('keeps', KEEP), ('forward', 'final(self).i >= old(self).i'),
                  ('C19:integer_field_is_exactly_its_digits', '''r is Ok ==> ({ let f = old(self).b@.subrange(old(self).i as int, final(self).i as int);
                        &&& final(self).i > old(self).i
                        &&& digits_with_separators(f)
                        &&& (final(self).i < final(self).b@.len() ==> !sp_is_digit(final(self).b@[final(self).i as int]) && final(self).b@[final(self).i as int] != 0x5f)
                        &&& r->Ok_0.0 == uint_fold(digits_only(f)) && r->Ok_0.1 == digits_only(f).len() && 1 <= r->Ok_0.1 <= 1_000_000 })''')],
         proofs=[dict(at='start', ghost=True, text='let ghost i0 = self.i; let ghost bb = self.b@;'),
                 dict(after='let mut prev_is_digit = false;', text='assert(bb.subrange(i0 as int, i0 as int) =~= Seq::<u8>::empty());'),
                 dict(after='while let Some(c) = self.peek() {', text='lemma_digits_only_step(bb, i0 as int, self.i as int); lemma_digits_only_len(bb.subrange(i0 as int, self.i as int));'),
                 dict(after='prev_is_digit = true;', text='''let ds = digits_only(bb.subrange(i0 as int, self.i - 1));
                      assert(ds.push(c).drop_last() =~= ds); assert(ds.push(c).last() == c);'''),
                 dict(before='if digits == 0 {', text='''let f = bb.subrange(i0 as int, self.i as int);
                      if digits > 0 {
                          assert(self.i > i0) by { if self.i == i0 { assert(f =~= Seq::<u8>::empty()); } }
                          assert forall|k: int| 0 <= k < f.len() implies sp_is_digit(#[trigger] f[k]) || (f[k] == 0x5f && 0 < k && k + 1 < f.len() && sp_is_digit(f[k - 1]) && sp_is_digit(f[k + 1])) by {
                              let kk = k + i0; assert(f[k] == bb[kk]);
                              if !sp_is_digit(bb[kk]) { assert(bb[kk] == 0x5f && sp_is_digit(bb[kk - 1]) && sp_is_digit(bb[kk + 1])); }
                          }
                      }'''),
                 ],
         loops={1: dict(invariant=[
                    ('inv', 'self.wf() && self.same_input(old(self)) && self.depth == old(self).depth && self.sexagesimal_is_time == old(self).sexagesimal_is_time && self.i >= i0 && self.b@ == bb && i0 == old(self).i && start == i0'),
                    ('value_so_far', 'v == uint_fold(digits_only(bb.subrange(i0 as int, self.i as int))) && digits == digits_only(bb.subrange(i0 as int, self.i as int)).len() && digits <= 1_000_000'),
                    ('shape_so_far', '''(self.i > i0 ==> sp_is_digit(bb[i0 as int])) && (prev_is_digit == (self.i > i0 && sp_is_digit(bb[self.i - 1])))
                        && (self.i > i0 && !prev_is_digit ==> bb[self.i - 1] == 0x5f && self.i < bb.len() && sp_is_digit(bb[self.i as int]))
                        && forall|k: int| i0 <= k < self.i ==> sp_is_digit(#[trigger] bb[k]) || (bb[k] == 0x5f && i0 < k && k + 1 < bb.len() && sp_is_digit(bb[k - 1]) && sp_is_digit(bb[k + 1]))'''),
                    ], ensures=[('stops_at_the_first_other_byte', 'self.i < bb.len() ==> !sp_is_digit(bb[self.i as int]) && bb[self.i as int] != 0x5f')],
                    decreases='self.b@.len() - self.i')},
         canaries=['C19:integer_field_is_exactly_its_digits']),
    dict(src=R, path=IP + 'fn read_uint_unders_to_u32', props=P,
         rewrites=[(r'v_f > u32::MAX as f64', 'fgt(v_f, u32_to_f64(u32::MAX))', 1, 'R8'),
                   (r'v_f as u32', 'f64_to_u32(v_f)', 1, 'R8')],
         requires=[('wf', 'old(self).wf()')],
         ensures=[('keeps', KEEP), ('forward', 'final(self).i >= old(self).i'),
                  ('C19:integer_field_is_exactly_its_digits', '''r is Ok ==> ({ let f = old(self).b@.subrange(old(self).i as int, final(self).i as int);
                        &&& final(self).i > old(self).i
                        &&& digits_with_separators(f)
                        &&& (final(self).i < final(self).b@.len() ==> !sp_is_digit(final(self).b@[final(self).i as int]) && final(self).b@[final(self).i as int] != 0x5f)
                        &&& !sp_fgt(uint_fold(digits_only(f)), sp_u32_to_f64(u32::MAX))
                        &&& r->Ok_0.0 == sp_f64_to_u32(uint_fold(digits_only(f))) && r->Ok_0.1 == digits_only(f).len() && 1 <= r->Ok_0.1 <= 1_000_000 })''')],
         canaries=['C19:integer_field_is_exactly_its_digits']),
    dict(src=R, path=IP + 'fn read_frac_part_unders', props=P,
         rewrites=[PEEKGET, DIGIT,
                   (r"num = num \* 10\.0 \+ \(c - b'0'\) as f64;", "num = fadd(fmul(num, 10.0), u8_to_f64(c - b'0'));", 1, 'R8'),
                   (r'scale \*= 10\.0;', 'scale = fmul(scale, 10.0);', 1, 'R8'),
                   (r'Ok\(\(num / scale, digits\)\)', 'Ok((fdiv(num, scale), digits))', 1, 'R8')],
         requires=[('wf', 'old(self).wf()')],
         ensures=[('keeps', KEEP), ('forward', 'final(self).i >= old(self).i'),
                  ('C19:fraction_is_exactly_its_first_18_digits', '''r is Ok ==> ({ let f = old(self).b@.subrange(old(self).i as int, final(self).i as int);
                        &&& final(self).i > old(self).i
                        &&& digits_with_separators(f)
                        &&& (final(self).i < final(self).b@.len() ==> !sp_is_digit(final(self).b@[final(self).i as int]) && final(self).b@[final(self).i as int] != 0x5f)
                        &&& r->Ok_0.0 == frac_value(digits_only(f)) && r->Ok_0.1 == digits_only(f).len() && 1 <= r->Ok_0.1 <= 1_000_000 })''')],
         proofs=[dict(at='start', ghost=True, text='let ghost i0 = self.i; let ghost bb = self.b@;'),
                 dict(after='let mut prev_is_digit = false;', text='assert(bb.subrange(i0 as int, i0 as int) =~= Seq::<u8>::empty()); assert(digits_only(bb.subrange(i0 as int, i0 as int)).take(0) =~= Seq::<u8>::empty());'),
                 dict(after='while let Some(c) = self.peek() {', text='lemma_digits_only_step(bb, i0 as int, self.i as int); lemma_digits_only_len(bb.subrange(i0 as int, self.i as int));'),
                 dict(after='prev_is_digit = true;', text='''let ds = digits_only(bb.subrange(i0 as int, self.i - 1)); let ds2 = ds.push(c);
                      let n = if ds.len() < 18 { ds.len() } else { 18 }; let n2 = if ds2.len() < 18 { ds2.len() } else { 18 };
                      if ds.len() < 18 { assert(ds2.take(n2 as int) =~= ds.take(n as int).push(c)); assert(ds2.take(n2 as int).drop_last() =~= ds.take(n as int)); }
                      else { assert(ds2.take(n2 as int) =~= ds.take(n as int)); }'''),
                 dict(before='if digits == 0 {', text='''let f = bb.subrange(i0 as int, self.i as int);
                      if digits > 0 {
                          assert(self.i > i0) by { if self.i == i0 { assert(f =~= Seq::<u8>::empty()); } }
                          assert forall|k: int| 0 <= k < f.len() implies sp_is_digit(#[trigger] f[k]) || (f[k] == 0x5f && 0 < k && k + 1 < f.len() && sp_is_digit(f[k - 1]) && sp_is_digit(f[k + 1])) by {
                              let kk = k + i0; assert(f[k] == bb[kk]);
                              if !sp_is_digit(bb[kk]) { assert(bb[kk] == 0x5f && sp_is_digit(bb[kk - 1]) && sp_is_digit(bb[kk + 1])); }
                          }
                      }'''),
                 ],
         loops={1: dict(invariant=[
                    ('inv', 'self.wf() && self.same_input(old(self)) && self.depth == old(self).depth && self.sexagesimal_is_time == old(self).sexagesimal_is_time && self.i >= i0 && self.b@ == bb && i0 == old(self).i'),
                    ('value_so_far', '''({ let ds = digits_only(bb.subrange(i0 as int, self.i as int)); let n = if ds.len() < 18 { ds.len() } else { 18 };
                        num == uint_fold(ds.take(n as int)) && scale == scale_fold(n) && digits == ds.len() && digits <= 1_000_000 })'''),
                    ('shape_so_far', '''(self.i > i0 ==> sp_is_digit(bb[i0 as int])) && (prev_is_digit == (self.i > i0 && sp_is_digit(bb[self.i - 1])))
                        && (self.i > i0 && !prev_is_digit ==> bb[self.i - 1] == 0x5f && self.i < bb.len() && sp_is_digit(bb[self.i as int]))
                        && forall|k: int| i0 <= k < self.i ==> sp_is_digit(#[trigger] bb[k]) || (bb[k] == 0x5f && i0 < k && k + 1 < bb.len() && sp_is_digit(bb[k - 1]) && sp_is_digit(bb[k + 1]))'''),
                    ], ensures=[('stops_at_the_first_other_byte', 'self.i < bb.len() ==> !sp_is_digit(bb[self.i as int]) && bb[self.i as int] != 0x5f')],
                    decreases='self.b@.len() - self.i')},
         canaries=['C19:fraction_is_exactly_its_first_18_digits']),
    dict(src=R, path=IP + 'fn try_parse_sexagesimal', props=P,
         rewrites=[PEEKGET, DIGIT,
                   (r'self\.b\.get\(j\)\.copied\(\)', 'bytes_get(self.b, j)', None, 'R8'),
                   (r'let degrees = deg_whole \+ \(mins_u as f64\) / 60\.0 \+ secs / 3600\.0;', 'let degrees = fadd(fadd(deg_whole, fdiv(u32_to_f64(mins_u), 60.0)), fdiv(secs, 3600.0));', None, 'R8'),
                   (r'let total_seconds = deg_whole \* 3600\.0 \+ \(mins_u as f64\) \* 60\.0 \+ secs;', 'let total_seconds = fadd(fadd(fmul(deg_whole, 3600.0), fmul(u32_to_f64(mins_u), 60.0)), secs);', None, 'R8'),
                   (r'degrees \* DEG2RAD', 'fmul(degrees, f64_deg2rad())', None, 'R8'),
                   (r'secs = secs_u as f64;', 'secs = u32_to_f64(secs_u);', 1, 'R8'),
                   (r'secs \+= frac;', 'secs = fadd(secs, frac);', 1, 'R8')],
         requires=[('wf', 'old(self).wf()')],
         ensures=[('keeps', KEEP), ('forward', 'final(self).i >= old(self).i'),
                  ('C19:text_that_is_not_sexagesimal_leaves_the_cursor_untouched', 'r == Ok::<Option<(f64, bool, bool)>, Error>(None) ==> final(self).i == old(self).i'),
                  ('C19:a_sexagesimal_value_carries_a_unit', 'match r { Ok(Some(e)) => e.1 && !e.2 && final(self).i > old(self).i, _ => true }')],
         loops={1: dict(invariant=[('scan', 'self.wf() && *self == *old(self) && self.i <= j <= self.b@.len()')], decreases='self.b@.len() - j')},
         canaries=['C19:text_that_is_not_sexagesimal_leaves_the_cursor_untouched', 'C19:a_sexagesimal_value_carries_a_unit']),
    dict(src=R, path=IP + 'fn parse_number_or_special', props=P,
         rewrites=[PEEKGET, (r'self\.b\[self\.i - 1\]\.is_ascii_digit\(\)', 'u8_is_ascii_digit(self.b[self.i - 1])', 3, 'R8'), DIGIT,
                   (r'f64::INFINITY', 'f64_infinity()', None, 'R8'), (r'f64::NAN', 'f64_nan()', None, 'R8'),
                   (r'&self\.s\[start\.\.self\.i\]', 'str_slice(self.s, start, self.i)', 1, 'R8'),
                   (r'f64::from_str\(s\) \{', 'f64_from_str(s) {', 1, 'R8'),
                   (r"core::str::from_utf8\(&buf\)\s*\.map_err\(\|_e\| self\.err\(\"invalid utf-8 in numeric literal\"\)\)\s*\.and_then\(\|s\| f64::from_str\(s\)\.map_err\(\|_e\| self\.err\(\"invalid float literal\"\)\)\)",
                    'f64_from_utf8_bytes(&buf)', 1, 'R8+R18')],
         requires=[('wf', 'old(self).wf()'),
                   ('called_at_a_digit_or_dot', 'old(self).i < old(self).b@.len() && (sp_is_digit(old(self).b@[old(self).i as int]) || old(self).b@[old(self).i as int] == 0x2e)')],
         ensures=[('keeps', KEEP), ('forward', 'final(self).i >= old(self).i'),
                  ('C19:number_is_a_special_a_sexagesimal_or_exactly_its_literal_minus_separators', '''match r { Ok(e) => ({ let b = old(self).b@; let i0 = old(self).i as int; let i1 = final(self).i as int;
                        ||| (kw_at(b, i0, seq![0x2eu8, 0x69, 0x6e, 0x66]) && i1 == i0 + 4 && e == (sp_inf(), false, true))
                        ||| (kw_at(b, i0, seq![0x2eu8, 0x6e, 0x61, 0x6e]) && i1 == i0 + 4 && e == (sp_nan(), false, true))
                        ||| (e.1 && !e.2 && i1 > i0)
                        ||| (!e.1 && e.2 && i1 > i0 && sp_f64_parse(strip_us(b.subrange(i0, i1))) == Some(e.0)) }),
                      Err(_) => true }'''),
                  ('reference_number', 'r is Ok ==> r_number(old(self).b@, old(self).i as int, final(self).i as int, r->Ok_0)')],
         proofs=[dict(at='start', ghost=True, text='let ghost bb = self.b@;'),
                 dict(at='start', text='assert(".inf".spec_bytes() =~= seq![0x2eu8, 0x69, 0x6e, 0x66]) by { lemma_dot_inf_nan(); } assert(".nan".spec_bytes() =~= seq![0x2eu8, 0x6e, 0x61, 0x6e]) by { lemma_dot_inf_nan(); }'),
                 dict(after='let mut buf = Vec::<u8>::with_capacity(32);', text='assert(bb.subrange(start as int, start as int) =~= Seq::<u8>::empty());'),
                 dict(after='while let Some(c) = self.peek() {', nth=1, text='lemma_strip_us_step(bb, start as int, self.i as int);'),
                 dict(after='while let Some(c) = self.peek() {', nth=2, text='lemma_strip_us_step(bb, start as int, self.i as int);'),
                 dict(after='while let Some(c) = self.peek() {', nth=3, text='lemma_strip_us_step(bb, start as int, self.i as int);'),
                 dict(before="buf.push(b'.');", text='lemma_strip_us_step(bb, start as int, self.i as int);'),
                 dict(before='if let Some(c) = self.bump() {', text='lemma_strip_us_step(bb, start as int, self.i as int);'),
                 dict(before='if let Some(sign) = self.bump() {', text='lemma_strip_us_step(bb, start as int, self.i as int);'),
                 dict(before='let s = str_slice(self.s, start, self.i);', text='assert(false);'),
                 ],
         loops={1: dict(invariant=[('inv', 'self.wf() && self.same_input(old(self)) && self.depth == old(self).depth && self.sexagesimal_is_time == old(self).sexagesimal_is_time && self.i >= start && start == old(self).i && self.b@ == bb'),
                    ('literal_so_far', 'buf@ == strip_us(bb.subrange(start as int, self.i as int)) && digits_seen <= 1_000_000 && (self.i > start ==> buf@.len() > 0)')], ensures=[('stops_at_the_first_other_byte', 'self.i < bb.len() ==> !sp_is_digit(bb[self.i as int]) && bb[self.i as int] != 0x5f')], decreases='self.b@.len() - self.i'),
                2: dict(invariant=[('inv', 'self.wf() && self.same_input(old(self)) && self.depth == old(self).depth && self.sexagesimal_is_time == old(self).sexagesimal_is_time && self.i >= start && start == old(self).i && self.b@ == bb'),
                    ('literal_so_far', 'buf@ == strip_us(bb.subrange(start as int, self.i as int)) && digits_seen <= 1_000_000 && (self.i > start ==> buf@.len() > 0)'), ('nonempty', 'buf@.len() > 0')], decreases='self.b@.len() - self.i'),
                3: dict(invariant=[('inv', 'self.wf() && self.same_input(old(self)) && self.depth == old(self).depth && self.sexagesimal_is_time == old(self).sexagesimal_is_time && self.i >= start && start == old(self).i && self.b@ == bb'),
                    ('literal_so_far', 'buf@ == strip_us(bb.subrange(start as int, self.i as int)) && digits_seen <= 1_000_000 && (self.i > start ==> buf@.len() > 0)'), ('nonempty', 'buf@.len() > 0')], decreases='self.b@.len() - self.i')},
         canaries=['C19:number_is_a_special_a_sexagesimal_or_exactly_its_literal_minus_separators']),
    dict(src=R, path=IP + 'fn expr', props=P,
         rewrites=[(r'v \+= rhs;', 'v = fadd(v, rhs);', None, 'R8'), (r'v -= rhs;', 'v = fsub(v, rhs);', None, 'R8'),
                   (r'_ => break,', '_ => { break; }', 1, 'R8')] + BOR,
         requires=[('wf', 'old(self).wf()')],
         ensures=[('keeps', 'final(self).wf() && final(self).same_input(old(self)) && final(self).depth == old(self).depth'), ('mode_restored', 'r is Ok ==> final(self).sexagesimal_is_time == old(self).sexagesimal_is_time'), ('forward', 'final(self).i >= old(self).i'),
                  ('C19:expr_is_the_left_associative_fold_of_the_reference_grammar', 'r is Ok ==> r_expr(old(self).b@, old(self).i as int, final(self).i as int, old(self).sexagesimal_is_time, old(self).tag, old(self).depth as int, r->Ok_0)')],
         decreases='old(self).b@.len() - old(self).i, 5int',
         proofs=[dict(at='start', ghost=True, text='let ghost bb = self.b@; let ghost i0 = self.i as int; let ghost gm = self.sexagesimal_is_time; let ghost gt = self.tag; let ghost gd = self.depth as int;'),
                 dict(at='start', text='reveal(wit);'),
                 dict(before='loop {', text='''
                    assert forall|i1: int, e: Ev3| #[trigger] r_expr_tail(bb, self.i as int, i1, gm, gt, gd, (v, used_unit, saw_plain), e) implies r_expr(bb, i0, i1, gm, gt, gd, e) by {
                        lemma_expr_tail_bound(bb, self.i as int, i1, gm, gt, gd, (v, used_unit, saw_plain), e);
                        assert(wit(self.i as int, (v, used_unit, saw_plain)));
                    }'''),
                 dict(after='loop {', ghost=True, text='let ghost j0 = self.i as int; let ghost acc0 = (v, used_unit, saw_plain);'),
                 dict(after='saw_plain = saw_plain || sp;', nth=1, text='''
                    lemma_skip_ws_pos(bb, j0);
                    assert forall|i1: int, e: Ev3| #[trigger] r_expr_tail(bb, self.i as int, i1, gm, gt, gd, (v, used_unit, saw_plain), e) implies r_expr(bb, i0, i1, gm, gt, gd, e) by {
                        lemma_expr_tail_bound(bb, self.i as int, i1, gm, gt, gd, (v, used_unit, saw_plain), e);
                        reveal(wit); assert(wit(self.i as int, (rhs, uu, sp)));
                        assert(r_expr_tail(bb, j0, i1, gm, gt, gd, acc0, e));
                    }'''),
                 dict(after='saw_plain = saw_plain || sp;', nth=2, text='''
                    lemma_skip_ws_pos(bb, j0);
                    assert forall|i1: int, e: Ev3| #[trigger] r_expr_tail(bb, self.i as int, i1, gm, gt, gd, (v, used_unit, saw_plain), e) implies r_expr(bb, i0, i1, gm, gt, gd, e) by {
                        lemma_expr_tail_bound(bb, self.i as int, i1, gm, gt, gd, (v, used_unit, saw_plain), e);
                        reveal(wit); assert(wit(self.i as int, (rhs, uu, sp)));
                        assert(r_expr_tail(bb, j0, i1, gm, gt, gd, acc0, e));
                    }'''),
                 dict(before='break;', text='''
                    lemma_skip_ws_pos(bb, j0);
                    assert forall|i1: int, e: Ev3| #[trigger] r_expr_tail(bb, self.i as int, i1, gm, gt, gd, (v, used_unit, saw_plain), e) implies r_expr(bb, i0, i1, gm, gt, gd, e) by {
                        lemma_expr_tail_skip(bb, j0, i1, gm, gt, gd, acc0, e);
                    }'''),
                 dict(after_loop=1, text='''lemma_skip_ws_pos(bb, self.i as int);
                    assert(r_expr_tail(bb, self.i as int, self.i as int, gm, gt, gd, (v, used_unit, saw_plain), (v, used_unit, saw_plain)));'''),
                 ],
         loops={1: dict(invariant=[('inv', 'self.wf() && self.same_input(old(self)) && self.depth == old(self).depth && self.sexagesimal_is_time == old(self).sexagesimal_is_time && self.i >= old(self).i && self.b@ == bb && i0 == old(self).i && gm == old(self).sexagesimal_is_time && gt == old(self).tag && gd == old(self).depth'),
                    ('folded_so_far', 'forall|i1: int, e: Ev3| #[trigger] r_expr_tail(bb, self.i as int, i1, gm, gt, gd, (v, used_unit, saw_plain), e) ==> r_expr(bb, i0, i1, gm, gt, gd, e)')],
                    ensures=[('no_operator_follows', 'self.i == skip_ws_pos(bb, self.i as int) && !(self.i < bb.len() && (bb[self.i as int] == 0x2b || bb[self.i as int] == 0x2d))')],
                    decreases='self.b@.len() - self.i')},
         canaries=['C19:expr_is_the_left_associative_fold_of_the_reference_grammar']),
    dict(src=R, path=IP + 'fn term', props=P,
         rewrites=[(r'v \*= rhs;', 'v = fmul(v, rhs);', None, 'R8'), (r'v /= rhs;', 'v = fdiv(v, rhs);', None, 'R8'),
                   (r'_ => break,', '_ => { break; }', 1, 'R8')] + BOR,
         requires=[('wf', 'old(self).wf()')],
         ensures=[('keeps', 'final(self).wf() && final(self).same_input(old(self)) && final(self).depth == old(self).depth'), ('mode_restored', 'r is Ok ==> final(self).sexagesimal_is_time == old(self).sexagesimal_is_time'), ('forward', 'final(self).i >= old(self).i'),
                  ('C19:term_is_the_left_associative_fold_of_the_reference_grammar', 'r is Ok ==> r_term(old(self).b@, old(self).i as int, final(self).i as int, old(self).sexagesimal_is_time, old(self).tag, old(self).depth as int, r->Ok_0)')],
         decreases='old(self).b@.len() - old(self).i, 4int',
         proofs=[dict(at='start', ghost=True, text='let ghost bb = self.b@; let ghost i0 = self.i as int; let ghost gm = self.sexagesimal_is_time; let ghost gt = self.tag; let ghost gd = self.depth as int;'),
                 dict(at='start', text='reveal(wit);'),
                 dict(before='loop {', text='''
                    assert forall|i1: int, e: Ev3| #[trigger] r_term_tail(bb, self.i as int, i1, gm, gt, gd, (v, used_unit, saw_plain), e) implies r_term(bb, i0, i1, gm, gt, gd, e) by {
                        lemma_term_tail_bound(bb, self.i as int, i1, gm, gt, gd, (v, used_unit, saw_plain), e);
                        assert(wit(self.i as int, (v, used_unit, saw_plain)));
                    }'''),
                 dict(after='loop {', ghost=True, text='let ghost j0 = self.i as int; let ghost acc0 = (v, used_unit, saw_plain);'),
                 dict(after='saw_plain = saw_plain || sp;', nth=1, text='''
                    lemma_skip_ws_pos(bb, j0);
                    assert forall|i1: int, e: Ev3| #[trigger] r_term_tail(bb, self.i as int, i1, gm, gt, gd, (v, used_unit, saw_plain), e) implies r_term(bb, i0, i1, gm, gt, gd, e) by {
                        lemma_term_tail_bound(bb, self.i as int, i1, gm, gt, gd, (v, used_unit, saw_plain), e);
                        reveal(wit); assert(wit(self.i as int, (rhs, uu, sp)));
                        assert(r_term_tail(bb, j0, i1, gm, gt, gd, acc0, e));
                    }'''),
                 dict(after='saw_plain = saw_plain || sp;', nth=2, text='''
                    lemma_skip_ws_pos(bb, j0);
                    assert forall|i1: int, e: Ev3| #[trigger] r_term_tail(bb, self.i as int, i1, gm, gt, gd, (v, used_unit, saw_plain), e) implies r_term(bb, i0, i1, gm, gt, gd, e) by {
                        lemma_term_tail_bound(bb, self.i as int, i1, gm, gt, gd, (v, used_unit, saw_plain), e);
                        reveal(wit); assert(wit(self.i as int, (rhs, uu, sp)));
                        assert(r_term_tail(bb, j0, i1, gm, gt, gd, acc0, e));
                    }'''),
                 dict(before='break;', text='''
                    lemma_skip_ws_pos(bb, j0);
                    assert forall|i1: int, e: Ev3| #[trigger] r_term_tail(bb, self.i as int, i1, gm, gt, gd, (v, used_unit, saw_plain), e) implies r_term(bb, i0, i1, gm, gt, gd, e) by {
                        lemma_term_tail_skip(bb, j0, i1, gm, gt, gd, acc0, e);
                    }'''),
                 dict(after_loop=1, text='''lemma_skip_ws_pos(bb, self.i as int);
                    assert(r_term_tail(bb, self.i as int, self.i as int, gm, gt, gd, (v, used_unit, saw_plain), (v, used_unit, saw_plain)));'''),
                 ],
         loops={1: dict(invariant=[('inv', 'self.wf() && self.same_input(old(self)) && self.depth == old(self).depth && self.sexagesimal_is_time == old(self).sexagesimal_is_time && self.i >= old(self).i && self.b@ == bb && i0 == old(self).i && gm == old(self).sexagesimal_is_time && gt == old(self).tag && gd == old(self).depth'),
                    ('folded_so_far', 'forall|i1: int, e: Ev3| #[trigger] r_term_tail(bb, self.i as int, i1, gm, gt, gd, (v, used_unit, saw_plain), e) ==> r_term(bb, i0, i1, gm, gt, gd, e)')],
                    ensures=[('no_operator_follows', 'self.i == skip_ws_pos(bb, self.i as int) && !(self.i < bb.len() && (bb[self.i as int] == 0x2a || bb[self.i as int] == 0x2f))')],
                    decreases='self.b@.len() - self.i')},
         canaries=['C19:term_is_the_left_associative_fold_of_the_reference_grammar']),
    dict(src=R, path=IP + 'fn unary', props=P,
         rewrites=[(r'sign = -sign;', 'sign = fneg(sign);', None, 'R8'), (r'Ok\(\(sign \* v, used_unit, saw_plain\)\)', 'Ok((fmul(sign, v), used_unit, saw_plain))', 1, 'R8'),
                   (r'_ => break,', '_ => { break; }', 1, 'R8')],
         requires=[('wf', 'old(self).wf()')],
         ensures=[('keeps', 'final(self).wf() && final(self).same_input(old(self)) && final(self).depth == old(self).depth'), ('mode_restored', 'r is Ok ==> final(self).sexagesimal_is_time == old(self).sexagesimal_is_time'), ('forward', 'final(self).i >= old(self).i'),
                  ('C19:unary_applies_every_sign_to_the_primary', 'r is Ok ==> r_unary(old(self).b@, old(self).i as int, final(self).i as int, old(self).sexagesimal_is_time, old(self).tag, old(self).depth as int, r->Ok_0)')],
         decreases='old(self).b@.len() - old(self).i, 3int',
         proofs=[dict(at='start', ghost=True, text='let ghost bb = self.b@; let ghost i0 = self.i as int; let ghost gm = self.sexagesimal_is_time; let ghost gt = self.tag; let ghost gd = self.depth as int;'),
                 dict(at='start', text='reveal(wit1); lemma_skip_ws_pos(bb, i0);'),
                 dict(after='let mut sign = 1.0;', ghost=True, text='let ghost is = self.i as int;'),
                 dict(after='loop {', ghost=True, text='let ghost s0 = sign;'),
                 dict(after='self.bump();', nth=1, text='''
                    assert forall|i1: int, e: Ev3| #[trigger] r_signs(bb, self.i as int, i1, gm, gt, gd, sign, e) implies r_signs(bb, is, i1, gm, gt, gd, 1.0f64, e) by {
                        lemma_signs_bound(bb, self.i as int, i1, gm, gt, gd, sign, e);
                        assert(r_signs(bb, self.i - 1, i1, gm, gt, gd, s0, e));
                    }'''),
                 dict(after_re=r'\bsign = [^;]*;', nth=2, text='''
                    assert forall|i1: int, e: Ev3| #[trigger] r_signs(bb, self.i as int, i1, gm, gt, gd, sign, e) implies r_signs(bb, is, i1, gm, gt, gd, 1.0f64, e) by {
                        lemma_signs_bound(bb, self.i as int, i1, gm, gt, gd, sign, e);
                        assert(r_signs(bb, self.i - 1, i1, gm, gt, gd, s0, e));
                    }'''),
                 dict(after='let (v, used_unit, saw_plain) = self.primary()?;', text='''
                    assert(wit1((v, used_unit, saw_plain)));
                    assert(r_signs(bb, is2, self.i as int, gm, gt, gd, sign, (sp_fmul(sign, v), used_unit, saw_plain)));'''),
                 dict(after_loop=1, ghost=True, text='let ghost is2 = self.i as int;'),
                 ],
         loops={1: dict(invariant=[('inv', 'self.wf() && self.same_input(old(self)) && self.depth == old(self).depth && self.sexagesimal_is_time == old(self).sexagesimal_is_time && self.i >= old(self).i && self.b@ == bb && i0 == old(self).i && gm == old(self).sexagesimal_is_time && gt == old(self).tag && gd == old(self).depth'), ('start', 'is == skip_ws_pos(bb, i0) && is <= self.i'),
                    ('signs_so_far', 'forall|i1: int, e: Ev3| #[trigger] r_signs(bb, self.i as int, i1, gm, gt, gd, sign, e) ==> r_signs(bb, is, i1, gm, gt, gd, 1.0f64, e)')],
                    ensures=[('no_sign_follows', '!(self.i < bb.len() && (bb[self.i as int] == 0x2b || bb[self.i as int] == 0x2d))')],
                    decreases='self.b@.len() - self.i')},
         canaries=['C19:unary_applies_every_sign_to_the_primary']),
    dict(src=R, path=IP + 'fn primary', props=P,
         rewrites=[DIGIT],
         requires=[('wf', 'old(self).wf()')],
         ensures=[('keeps', 'final(self).wf() && final(self).same_input(old(self)) && final(self).depth == old(self).depth'), ('mode_restored', 'r is Ok ==> final(self).sexagesimal_is_time == old(self).sexagesimal_is_time'), ('forward', 'final(self).i >= old(self).i'),
                  ('C19:primary_is_a_parenthesised_expression_a_number_or_a_name', 'r is Ok ==> r_primary(old(self).b@, old(self).i as int, final(self).i as int, old(self).sexagesimal_is_time, old(self).tag, old(self).depth as int, r->Ok_0)')],
         decreases='old(self).b@.len() - old(self).i, 2int',
         proofs=[dict(at='start', ghost=True, text='let ghost bb = self.b@; let ghost i0 = self.i as int; let ghost gm = self.sexagesimal_is_time; let ghost gt = self.tag; let ghost gd = self.depth as int;'),
                 dict(at='start', text='reveal(witp); lemma_skip_ws_pos(bb, i0);'),
                 dict(before='let (v, used, plain) = r?;', ghost=True, text='let ghost j = self.i as int;'),
                 dict(after='let (v, used, plain) = r?;', text='assert(witp(j)); lemma_skip_ws_pos(bb, j);'),
                 ],
         canaries=['C19:primary_is_a_parenthesised_expression_a_number_or_a_name']),
    dict(src=R, path=IP + 'fn parse_ident_or_special', props=P,
         rewrites=[(r'&self\.s\[start\.\.self\.i\]', 'str_slice(self.s, start, self.i)', 1, 'R8'),
                   (r'ident\.eq_ignore_ascii_case\(("\w+")\)', r'str_eq_ignore_ascii_case(ident, \1)', None, 'R8'),
                   (r'\(PI, false, true\)', '(f64_pi(), false, true)', None, 'R8'),
                   (r'\(2\.0 \* PI, false, true\)', '(fmul(2.0, f64_pi()), false, true)', None, 'R8'),
                   (r'f64::INFINITY', 'f64_infinity()', None, 'R8'), (r'f64::NAN', 'f64_nan()', None, 'R8'),
                   (r'v \* DEG2RAD', 'fmul(v, f64_deg2rad())', None, 'R8'),
                   (r"self\.bump\(\) != Some\(b'\('\)", "!(self.bump() == Some(b'('))", 1, 'R8'),
                   (r"self\.bump\(\) != Some\(b'\)'\)", "!(self.bump() == Some(b')'))", 1, 'R8')],
         requires=[('wf', 'old(self).wf()'),
                   ('called_at_an_identifier_start', 'old(self).i < old(self).b@.len() && (sp_is_alpha(old(self).b@[old(self).i as int]) || old(self).b@[old(self).i as int] == 0x5f)')],
         ensures=[('keeps', 'final(self).wf() && final(self).same_input(old(self)) && final(self).depth == old(self).depth'), ('mode_restored', 'r is Ok ==> final(self).sexagesimal_is_time == old(self).sexagesimal_is_time'), ('forward', 'final(self).i >= old(self).i'),
                  ('C19:name_is_a_constant_or_a_unit_function_of_an_expression', 'r is Ok ==> r_ident(old(self).b@, old(self).i as int, final(self).i as int, old(self).sexagesimal_is_time, old(self).tag, old(self).depth as int, r->Ok_0)')],
         proofs=[dict(at='start', ghost=True, text='let ghost bb = self.b@; let ghost i0 = self.i as int; let ghost gm = self.sexagesimal_is_time; let ghost gt = self.tag; let ghost gd = self.depth as int;'),
                 dict(at='start', text='reveal(wit); lemma_ident_literals();'),
                 dict(before='let ident = str_slice(self.s, start, self.i);', text='axiom_ascii_byte_is_a_char(self.s@, start as int); axiom_ascii_byte_is_a_char(self.s@, self.i - 1);'),
                 dict(after='let ident = str_slice(self.s, start, self.i);', ghost=True, text='let ghost ie = self.i as int;'),
                 dict(after='let ident = str_slice(self.s, start, self.i);', text='assert(ident.spec_bytes() =~= bb.subrange(i0, ie)); lemma_skip_ws_pos(bb, ie);'),
                 dict(before='let (v, _used_inner, _plain_inner) = r?;', ghost=True, text='let ghost j = self.i as int;'),
                 dict(after='let (v, _used_inner, _plain_inner) = r?;', text='assert(wit(j, (v, _used_inner, _plain_inner))); lemma_skip_ws_pos(bb, j);'),
                 ],
         decreases='old(self).b@.len() - old(self).i, 1int',
         loops={1: dict(invariant=[('inv', 'self.wf() && self.same_input(old(self)) && self.depth == old(self).depth && self.sexagesimal_is_time == old(self).sexagesimal_is_time && self.i >= old(self).i && self.b@ == bb && i0 == old(self).i'), ('ident_bytes', 'start == old(self).i && (self.i > start ==> self.b@[self.i - 1] < 0x80) && self.b@[start as int] < 0x80 && (self.i == start || self.i > start)'),
                                   ('progress', 'self.i == start ==> self.i < self.b@.len() && (sp_is_alpha(self.b@[self.i as int]) || self.b@[self.i as int] == 0x5f)'),
                                   ('same_end', 'ident_end(bb, self.i as int) == ident_end(bb, i0)')],
                        ensures=[('consumed_the_whole_name', 'self.i > start && self.i == ident_end(bb, i0)')],
                        decreases='self.b@.len() - self.i')},
         canaries=['C19:name_is_a_constant_or_a_unit_function_of_an_expression']),
    dict(src=R, path=IP + 'fn new', props=P,
         rewrites=[(r's\.as_bytes\(\)', 'str_as_bytes(s)', 1, 'R8')],
         proofs=[dict(at='start', text='axiom_str_len_bounded(s);')],
         ensures=[('fresh_parser', 'r.wf() && r.i == 0 && r.depth == 0 && r.s == s && r.tag == tag && r.loc == loc && r.sexagesimal_is_time')]),
    dict(src=R, path='fn parse_yaml12_float_angle_converting', id='parse_yaml12_float_angle_converting<f64>', rename='parse_yaml12_float_angle_converting_f64', props=P,
         pre_rewrites=[(r'pub\(crate\) fn parse_yaml12_float_angle_converting<T>\(', 'fn parse_yaml12_float_angle_converting_f64(', 1, 'R9'),
                       (r'\) -> Result<T, Error>\s*where\s*T: FromF64,\s*\{', ') -> Result<f64, Error> {', 1, 'R9'),
                       (r'Ok\(T::from_f64\(value\)\)', 'Ok(value)', 1, 'R9')],
         rewrites=[(r'SfTag::Degrees => value \*= DEG2RAD,', 'SfTag::Degrees => { value = fmul(value, f64_deg2rad()); }', 1, 'R8')],
         ensures=[('C19:value_is_the_reference_evaluation_of_the_whole_text_with_the_tag_applied_once', '''r is Ok ==> exists|j: int, e: Ev3| #[trigger] wit(j, e)
                        && r_expr(s.spec_bytes(), skip_ws_pos(s.spec_bytes(), 0), j, true, tag, 0, e) && skip_ws_pos(s.spec_bytes(), j) == s.spec_bytes().len()
                        && !(e.1 && tag is Degrees && e.2)
                        && r->Ok_0 == (if !e.1 && tag is Degrees { sp_fmul(e.0, sp_deg2rad()) } else { e.0 })''')],
         canaries=['C19:value_is_the_reference_evaluation_of_the_whole_text_with_the_tag_applied_once'],
         proofs=[dict(after='let (mut value, used_unit, saw_plain) = p.expr()?;', ghost=True, text='let ghost v0 = value; let ghost j = p.i as int;'),
                 dict(after='let (mut value, used_unit, saw_plain) = p.expr()?;', text='reveal(wit); assert(wit(j, (v0, used_unit, saw_plain)));'),
                 dict(before='Ok(value)', label='C19:degree_tag_converts_a_unitless_value_exactly_once_and_mixed_units_are_rejected',
                      text='''assert(if !used_unit { value == (if tag is Degrees { sp_fmul(v0, sp_deg2rad()) } else { v0 }) }
                                else { value == v0 && !(tag is Degrees && saw_plain) });''')],
         ),
    dict(src=R, path='fn parse_yaml12_float_angle_converting', id='parse_yaml12_float_angle_converting<f32>', rename='parse_yaml12_float_angle_converting_f32', props=P,
         pre_rewrites=[(r'pub\(crate\) fn parse_yaml12_float_angle_converting<T>\(', 'fn parse_yaml12_float_angle_converting_f32(', 1, 'R9'),
                       (r'\) -> Result<T, Error>\s*where\s*T: FromF64,\s*\{', ') -> Result<f32, Error> {', 1, 'R9'),
                       (r'Ok\(T::from_f64\(value\)\)', 'Ok(f64_to_f32(value))', 1, 'R9')],
         rewrites=[(r'SfTag::Degrees => value \*= DEG2RAD,', 'SfTag::Degrees => { value = fmul(value, f64_deg2rad()); }', 1, 'R8')],
         ensures=[('C19:value_is_the_reference_evaluation_of_the_whole_text_with_the_tag_applied_once', '''r is Ok ==> exists|j: int, e: Ev3| #[trigger] wit(j, e)
                        && r_expr(s.spec_bytes(), skip_ws_pos(s.spec_bytes(), 0), j, true, tag, 0, e) && skip_ws_pos(s.spec_bytes(), j) == s.spec_bytes().len()
                        && !(e.1 && tag is Degrees && e.2)
                        && r->Ok_0 == sp_f64_to_f32(if !e.1 && tag is Degrees { sp_fmul(e.0, sp_deg2rad()) } else { e.0 })''')],
         canaries=['C19:value_is_the_reference_evaluation_of_the_whole_text_with_the_tag_applied_once'],
         proofs=[dict(after='let (mut value, used_unit, saw_plain) = p.expr()?;', ghost=True, text='let ghost v0 = value; let ghost j = p.i as int;'),
                 dict(after='let (mut value, used_unit, saw_plain) = p.expr()?;', text='reveal(wit); assert(wit(j, (v0, used_unit, saw_plain)));'),
                 dict(before='Ok(f64_to_f32(value))', label='C19:degree_tag_converts_a_unitless_value_exactly_once_and_mixed_units_are_rejected',
                      text='''assert(if !used_unit { value == (if tag is Degrees { sp_fmul(v0, sp_deg2rad()) } else { v0 }) }
                                else { value == v0 && !(tag is Degrees && saw_plain) });''')],
         ),
]

# ---- bounded stand-in (vc/bounded.py): used only for a function of the evaluator that Verus can no longer take ----
_RB = dict(harness='bounded/robotics_eval.rs', items=[('src/robotics.rs', '*')],
           subs=[(r'use crate::tags::SfTag;', 'use super::shim::SfTag;'), (r'use crate::\{Error, Location\};', 'use super::shim::{Error, Location};')])
_RB_LABELS = {
    'Parser::expr': 'C19:expr_is_the_left_associative_fold_of_the_reference_grammar',
    'Parser::term': 'C19:term_is_the_left_associative_fold_of_the_reference_grammar',
    'Parser::unary': 'C19:unary_applies_every_sign_to_the_primary',
    'Parser::primary': 'C19:primary_is_a_parenthesised_expression_a_number_or_a_name',
    'Parser::parse_ident_or_special': 'C19:name_is_a_constant_or_a_unit_function_of_an_expression',
    'parse_yaml12_float_angle_converting<f64>': 'C19:value_is_the_reference_evaluation_of_the_whole_text_with_the_tag_applied_once',
}
for _it in ITEMS:
    if not _it: continue
    _id = _it.get('id') or _it['path'].replace('impl ', '').replace('/fn ', '::').replace('fn ', '')
    if _id in _RB_LABELS:
        _it['bounded'] = dict(_RB, label=_RB_LABELS[_id])
