"""Unit `plain`: the plain-safety predicates of the emitter (src/ser_quoting.rs) against YAML's rules for plain scalars (C12)."""
from contracts_types import *
NAME = 'plain'
FEATURES = []
USES = ['use vstd::string::*;', 'use vstd::utf8::*;']
PRELUDE = ['crop.spec.rs', 'crop.shim.rs', 'plain.spec.rs', 'plain.shim.rs']
SUBST = []
Q = 'src/ser_quoting.rs'
P = ['C12', 'C01']
FIRSTBYTE = [(r's\.as_bytes\(\)', 'pl_str_as_bytes(s)', 1, 'R8'),
             (r'bytes\[(\d)\]\.is_ascii_whitespace\(\)', r'pl_u8_is_ascii_whitespace(bytes[\1])', None, 'R8')]

def _matches_str_literals(m):
    # R35: `matches!(s, "a" | "b" | ...)` on a &str is a disjunction of equalities
    import re as _re
    lits = _re.findall(r'"(?:[^"\\\\]|\\\\.)*"', m.group(2))
    return '(' + ' || '.join('pl_str_eq(%s, %s)' % (m.group(1), l) for l in lits) + ')'
MATCHES_STR = (r'matches!\(\s*(\w+),\s*((?:"(?:[^"\\\\]|\\\\.)*"\s*\|?\s*)+)\)', _matches_str_literals, None, 'R35')

ITEMS = [
    dict(src=Q, path='fn is_numeric_looking', trusted=True, props=[], ensures=[('regex_is_opaque', 'r == sp_numeric_looking(s.spec_bytes())')]),
    # an iterator pipeline (outside the verifier's subset): contract assumed in the deductive part, bounded-only harness on the real text in every
    # run.  The contract is the code's exact meaning: with an EMPTY list no control character is found (no call site passes one)
    dict(src=Q, path='fn contains_any_or_is_control', trusted=True, props=[], bounded_props=P, bounded_only=True,
         bounded=dict(harness='bounded/char_predicates.rs', items=[('src/ser_quoting.rs', 'fn contains_any_or_is_control')], cfgs=['has_contains']),
         ensures=[('C12:some_character_is_listed_or_is_a_control_character', 'r == (exists|k: int| 0 <= k < string@.len() && (values@.contains(#[trigger] string@[k]) || (values@.len() > 0 && pl_is_cc(string@[k]))))')]),
    dict(src=Q, path='fn is_ambiguous/fn is_ascii_lower', id='is_ambiguous::is_ascii_lower', props=P,
         ensures=[('value', 'r == b | 0x20')]),
    dict(src=Q, path='fn is_ambiguous/fn is_special_inf_nan_ascii', id='is_ambiguous::is_special_inf_nan_ascii', props=P,
         pre_rewrites=[(r's\.as_bytes\(\)', 'pl_str_as_bytes(s)', 1, 'R8'),
                   (r'Some\(&c\) = bytes\.first\(\)', 'Some(c) = pl_bytes_first(bytes)', 1, 'R8'),
                   (r'Some\(&c\) = bytes\.get\(i\)', 'Some(c) = pl_bytes_get(bytes, i)', 1, 'R8')],
         ensures=[('C12:special_float_spellings_recognised_exactly', 'r == sp_special_float(s.spec_bytes())')],
         proofs=[dict(before='let a = is_ascii_lower(bytes[i]);', text='lemma_or20(bytes@[i as int]); lemma_or20(bytes@[i + 1]); lemma_or20(bytes@[i + 2]);')],
         canaries=['C12:special_float_spellings_recognised_exactly']),
    dict(src=Q, path='fn is_ambiguous', props=P, lift_nested_fns=True,
         pre_rewrites=[MATCHES_STR, (r's\.is_empty\(\)', 'pl_str_is_empty(s)', None, 'R8'),
                       (r's == ("(?:[^"\\\\]|\\\\.)*")', r'pl_str_eq(s, \1)', None, 'R8'),
                       (r's\.eq_ignore_ascii_case\(("\w+")\)', r'pl_str_eq_ci(s, \1)', None, 'R8'),
                       (r'if let Some\(rest\) = s\.strip_prefix\("---"\)\.or_else\(\|\| s\.strip_prefix\("\.\.\."\)\) \{',
                        'if let Some(rest) = (match pl_str_strip_prefix(s, "---") { Some(__v) => Some(__v), None => pl_str_strip_prefix(s, "...") }) {', 1, 'R18'),
                       (r"rest\.is_empty\(\) \|\| rest\.starts_with\(' '\) \|\| rest\.starts_with\('\\t'\)", "pl_str_is_empty(rest) || pl_str_starts_with_char(rest, ' ') || pl_str_starts_with_char(rest, '\\\\t')", 1, 'R8')],
         ensures=[('C12:everything_that_would_not_read_back_as_a_string_is_ambiguous', 'r == sp_ambiguous(s.spec_bytes())')],
         proofs=[dict(at='start', text='lemma_plain_literals();')],
         canaries=['C12:everything_that_would_not_read_back_as_a_string_is_ambiguous']),
    dict(src=Q, path='fn is_ambiguous_value', props=P,
         rewrites=[(r'!yaml_12 && parse_yaml11_bool\(s\)\.is_ok\(\)', '!yaml_12 && pl_is_yaml11_bool(s)', 1, 'R8'),
                   (r's\.eq_ignore_ascii_case\(("[+-]?\w+")\)', r'pl_str_eq_ci(s, \1)', None, 'R8')],
         ensures=[('C12:value_tokens_that_would_read_back_as_non_strings_are_ambiguous', '''sp_ambiguous(s.spec_bytes()) ==> r'''),
                  ('yaml11_bools_unless_yaml12', '!yaml_12 && sp_yaml11_bool(s.spec_bytes()) ==> r')]),
    dict(src=Q, path='fn has_unsafe_plain_edge', props=P,
         rewrites=[(r"s\.ends_with\(\[' ', '\\t'\]\)", 'pl_str_ends_with_blank(s)', None, 'R8'),
                   (r"s\.ends_with\(('(?:[^'\\\\]|\\\\t)')\)", r'pl_str_ends_with_char(s, \1)', None, 'R8'),
                   (r"s\.starts_with\('\\u\{FEFF\}'\)", 'pl_str_starts_with_bom(s)', None, 'R8')],
         ensures=[('C12:trailing_blank_or_leading_bom', 'r == ((s.spec_bytes().len() > 0 && yb_blank(s.spec_bytes().last())) || yb_starts_with_bom(s.spec_bytes()))')],
         canaries=['C12:trailing_blank_or_leading_bom']),
    dict(src=Q, path='fn is_plain_safe', props=P,
         rewrites=FIRSTBYTE,
         ensures=[('C12:a_key_emitted_plain_is_not_a_null_bool_number_marker_or_merge_key', 'r ==> !sp_ambiguous(s.spec_bytes())'),
                  ('C12:a_key_emitted_plain_reads_back_as_the_same_text', 'r ==> plain_reads_back(s.spec_bytes(), false)')],
         proofs=[dict(at='start', text='axiom_ws_table();'),
                 dict(before_re=r'!contains_any_or_is_control\(s, ', text='''
                    if !(exists|k: int| 0 <= k < s@.len() && (seq![':', '#'].contains(#[trigger] s@[k]) || pl_is_cc(s@[k]))) {
                        assert(no_char_of(s@, seq![':', '#']));
                        lemma_absent_char_absent_byte(s@, seq![':', '#']);
                        assert(seq![':', '#'].contains(':') && seq![':', '#'].contains('#'));
                    }''')],
         canaries=['C12:a_key_emitted_plain_reads_back_as_the_same_text']),
    dict(src=Q, path='fn is_plain_value_safe', props=P,
         rewrites=FIRSTBYTE + [(r's\.contains\(": "\)', 'pl_str_contains_colon_space(s)', 1, 'R8'),
                               (r"s\.trim\(\)\.ends_with\(':'\)", 'pl_str_trim_ends_with_colon(s)', 1, 'R8')],
         ensures=[('C12:a_value_emitted_plain_is_not_a_null_bool_number_or_marker', 'r ==> !sp_ambiguous(s.spec_bytes()) && !(!yaml_12 && sp_yaml11_bool(s.spec_bytes()))'),
                  ('C12:a_value_emitted_plain_reads_back_as_the_same_text_unless_an_edge_needs_quotes',
                   'r ==> yb_blank(s.spec_bytes().last()) || yb_starts_with_bom(s.spec_bytes()) || plain_reads_back(s.spec_bytes(), in_flow)')],
         proofs=[dict(at='start', text='axiom_ws_table();'),
                 dict(before='if in_flow {', text='''
                    let fl = seq![',', '[', ']', '{', '}', '#']; let bl = seq!['#'];
                    if in_flow && !(exists|k: int| 0 <= k < s@.len() && (fl.contains(#[trigger] s@[k]) || pl_is_cc(s@[k]))) {
                        assert(no_char_of(s@, fl)); lemma_absent_char_absent_byte(s@, fl);
                        assert(fl[0] == ',' && fl[1] == '[' && fl[2] == ']' && fl[3] == '{' && fl[4] == '}' && fl[5] == '#'); assert(fl.contains(',') && fl.contains('[') && fl.contains(']') && fl.contains('{') && fl.contains('}') && fl.contains('#'));
                    }
                    if !in_flow && !(exists|k: int| 0 <= k < s@.len() && (bl.contains(#[trigger] s@[k]) || pl_is_cc(s@[k]))) {
                        assert(no_char_of(s@, bl)); lemma_absent_char_absent_byte(s@, bl);
                        assert(bl[0] == '#'); assert(bl.contains('#'));
                    }
                    lemma_last_non_ws_colon(s@);''')],
         canaries=['C12:a_value_emitted_plain_reads_back_as_the_same_text_unless_an_edge_needs_quotes']),
]
