"""Unit `ring`: src/ring_reader.rs - the fixed ring buffer, the start-line / start-offset bookkeeping of the recent-bytes
window that reader error reports are rendered from (C17), and the transparency of the Read wrapper (C09: the reader entry
points see exactly the bytes the source delivers, in order, whatever was read ahead for a report)."""
from contracts_types import *
NAME = 'ring'
FEATURES = []
USES = ['use vstd::string::*;', 'use vstd::utf8::*;']
PRELUDE = ['reader.shim.rs', 'snippet.spec.rs', 'ring.spec.rs', 'ring.shim.rs']
SUBST = []
RR = 'src/ring_reader.rs'
_SLOTS = 'lemma_ring_slots(self.head as int, N as int);'
_STREAM_OLD = '(old(self).stash@ + old(self).inner.remaining())'
_STREAM_NEW = '(final(self).stash@ + final(self).inner.remaining())'
_STREAM_CUR = '(self.stash@ + self.inner.remaining())'
_FRESH = 'old(self).inner.remaining().take(old(self).inner.remaining().len() - final(self).inner.remaining().len())'
ITEMS = [
    dict(src=RR, path='const ASSUMED_LINE_LENGTH'),
    dict(src=RR, path='const RING_BUFFER_SIZE'),
    dict(src=RR, path='const MAX_READ_AHEAD'),
    dict(src=RR, path='struct FixedRingBuffer'),
    dict(src=RR, path='impl FixedRingBuffer/fn new', props=['C17', 'C01'],
         requires=[('capacity_is_sane', '0 < N && N <= usize::MAX / 2')],
         ensures=[('C17:a_new_ring_is_empty', 'r.wf() && r@ =~= Seq::<u8>::empty()')]),
    dict(src=RR, path='impl FixedRingBuffer/fn is_empty', props=['C17'],
         ensures=[('value', 'r == (self@.len() == 0)')]),
    dict(src=RR, path='impl FixedRingBuffer/fn len', props=['C17'],
         ensures=[('value', 'r == self@.len()')]),
    dict(src=RR, path='impl FixedRingBuffer/fn push_back', props=['C17', 'C09', 'C01'],
         requires=[('well_formed', 'old(self).wf()')],
         proofs=[dict(at='start', text=_SLOTS)],
         ensures=[('well_formed', 'final(self).wf()'),
                  ('C17:a_pushed_byte_becomes_the_newest_and_only_a_full_ring_drops_its_oldest',
                   'final(self)@ =~= (if old(self)@.len() == N { old(self)@.skip(1) } else { old(self)@ }).push(value)')],
         canaries=['C17:a_pushed_byte_becomes_the_newest_and_only_a_full_ring_drops_its_oldest']),
    dict(src=RR, path='impl FixedRingBuffer/fn pop_front', props=['C17', 'C09', 'C01'],
         requires=[('well_formed', 'old(self).wf()')],
         proofs=[dict(at='start', text=_SLOTS)],
         ensures=[('well_formed', 'final(self).wf()'),
                  ('C17:the_oldest_byte_is_the_one_removed', 'r == (if old(self)@.len() == 0 { None::<u8> } else { Some(old(self)@[0]) })'),
                  ('C17:the_other_bytes_stay_in_order', 'final(self)@ =~= (if old(self)@.len() == 0 { old(self)@ } else { old(self)@.skip(1) })')],
         canaries=['C17:the_oldest_byte_is_the_one_removed']),
    dict(src=RR, path='struct RingReader'),
    dict(src=RR, path='impl RingReader/fn new', props=['C17', 'C09'],
         ensures=[('C17:a_new_reader_has_an_empty_window_at_line_one_and_nothing_read_ahead',
                   'r.ring.wf() && r.stash.wf() && r.ring@.len() == 0 && r.stash@.len() == 0 && r.ring_start_line == 1 && r.returned_total == 0 && r.window_ok() && r.inner == inner')]),
    dict(src=RR, path='impl RingReader/fn push_ring_bytes', props=['C17', 'C01'],
         loop_rewrites=[(1, 'slice')],
         requires=[('well_formed', 'old(self).ring.wf()'),
                   ('the_new_bytes_follow_the_window', '''(old(self).ring@.len() > 0 ==> old(self).ring_start_offset + old(self).ring@.len() == abs_start)
                        && old(self).ring_start_line <= 1 + (if old(self).ring@.len() > 0 { old(self).ring_start_offset } else { abs_start })'''),
                   ('history_shorter_than_2_64', 'old(self).ring_start_line + bytes@.len() <= usize::MAX && abs_start + bytes@.len() <= u64::MAX')],
         proofs=[dict(at='start', ghost=True, text='let ghost r0 = self.ring@; let ghost l0 = self.ring_start_line; let ghost o0 = self.ring_start_offset;'),
                 dict(after='let evicted = self.ring.pop_front();', text='''
                     let ghost all_k = r0 + bytes@.take(__i1 - 1);
                     let ghost m = all_k.len() - RING_BUFFER_SIZE;
                     assert(evicted == Some(all_k[m]));
                     assert(self.ring@.len() == RING_BUFFER_SIZE - 1 && self.ring@[0] == all_k[m + 1]);
                     lemma_breaks_bound(all_k, m);
                     assert(r0.len() == RING_BUFFER_SIZE ==> m == __i1 - 1);'''),
                 dict(after='self.ring.push_back(b);', text='''
                     assert(bytes@.take(__i1 as int) =~= bytes@.take(__i1 - 1).push(b));
                     assert(r0 + bytes@.take(__i1 as int) =~= (r0 + bytes@.take(__i1 - 1)) + seq![b]);
                     let ghost all_k = r0 + bytes@.take(__i1 - 1);
                     let ghost m = all_k.len() - RING_BUFFER_SIZE;
                     if m >= 0 {
                         lemma_breaks_stable(all_k, seq![b], m);
                         assert((all_k + seq![b])[m] == all_k[m]);
                         assert((all_k + seq![b])[m + 1] == all_k[m + 1]);
                     }'''),
                 dict(after_loop=1, text='assert(bytes@.take(bytes@.len() as int) =~= bytes@); lemma_breaks_bound(r0 + bytes@, evicted_len(r0 + bytes@, RING_BUFFER_SIZE as int));')],
         ensures=[('well_formed', 'final(self).ring.wf()'),
                  ('C17:the_window_is_the_last_bytes_pushed', 'final(self).ring@ =~= last_n(old(self).ring@ + bytes@, RING_BUFFER_SIZE as int)'),
                  ('C17:the_first_line_of_the_window_advances_by_exactly_the_lines_that_ended_in_front_of_it',
                   'final(self).ring_start_line == old(self).ring_start_line + breaks_before(old(self).ring@ + bytes@, evicted_len(old(self).ring@ + bytes@, RING_BUFFER_SIZE as int))'),
                  ('C17:the_offset_of_the_window_advances_by_exactly_the_bytes_that_left_it',
                   '''final(self).ring@.len() > 0 ==> final(self).ring_start_offset ==
                        (if old(self).ring@.len() > 0 { old(self).ring_start_offset } else { abs_start }) + evicted_len(old(self).ring@ + bytes@, RING_BUFFER_SIZE as int)'''),
                  ('C17:the_window_ends_where_the_new_bytes_end', '''(final(self).ring@.len() > 0 ==> final(self).ring_start_offset + final(self).ring@.len() == abs_start + bytes@.len())
                        && (bytes@.len() == 0 ==> final(self).ring_start_offset == old(self).ring_start_offset)
                        && final(self).ring_start_line <= 1 + (if final(self).ring@.len() > 0 { final(self).ring_start_offset } else { abs_start })'''),
                  ('frame', 'final(self).stash == old(self).stash && final(self).returned_total == old(self).returned_total && final(self).inner == old(self).inner')],
         loops={1: dict(invariant=[
             ('progress', '__i1 <= bytes@.len() && self.ring.wf() && off == abs_start + __i1'),
             ('frame', 'self.stash == old(self).stash && self.returned_total == old(self).returned_total && self.inner == old(self).inner'),
             ('window', 'self.ring@ =~= last_n(r0 + bytes@.take(__i1 as int), RING_BUFFER_SIZE as int)'),
             ('line', 'self.ring_start_line == l0 + breaks_before(r0 + bytes@.take(__i1 as int), evicted_len(r0 + bytes@.take(__i1 as int), RING_BUFFER_SIZE as int))'),
             ('offset', '''((r0 + bytes@.take(__i1 as int)).len() > 0 ==> self.ring_start_offset ==
                        (if r0.len() > 0 { o0 } else { abs_start }) + evicted_len(r0 + bytes@.take(__i1 as int), RING_BUFFER_SIZE as int))
                        && ((r0 + bytes@.take(__i1 as int)).len() == 0 ==> self.ring_start_offset == o0)'''),
             ('facts', '''r0 == old(self).ring@ && l0 == old(self).ring_start_line && o0 == old(self).ring_start_offset && r0.len() <= RING_BUFFER_SIZE
                        && l0 + bytes@.len() <= usize::MAX && abs_start + bytes@.len() <= u64::MAX && (r0.len() > 0 ==> o0 + r0.len() == abs_start)
                        && l0 <= 1 + (if r0.len() > 0 { o0 } else { abs_start })'''),
         ], decreases='bytes@.len() - __i1')},
         canaries=['C17:the_first_line_of_the_window_advances_by_exactly_the_lines_that_ended_in_front_of_it']),
    dict(src=RR, path='impl RingReader/fn drain_stash_into', props=['C09', 'C17', 'C01'],
         requires=[('well_formed', 'old(self).stash.wf()')],
         proofs=[dict(at='start', ghost=True, text='let ghost s0 = self.stash@; let ghost out0 = out@;')],
         ensures=[('well_formed', 'final(self).stash.wf()'),
                  ('C09:read_ahead_bytes_are_handed_out_first_in_order_and_none_is_lost',
                   '''r == (if old(out)@.len() <= old(self).stash@.len() { old(out)@.len() } else { old(self).stash@.len() })
                      && final(out)@.len() == old(out)@.len() && final(out)@.take(r as int) =~= old(self).stash@.take(r as int)
                      && final(self).stash@ =~= old(self).stash@.skip(r as int)'''),
                  ('frame', 'final(self).ring == old(self).ring && final(self).returned_total == old(self).returned_total && final(self).ring_start_line == old(self).ring_start_line && final(self).ring_start_offset == old(self).ring_start_offset && final(self).inner == old(self).inner')],
         loops={1: dict(invariant=[('progress', '''n <= out@.len() && n <= s0.len() && out@.len() == out0.len() && self.stash.wf()
                                      && out@.take(n as int) =~= s0.take(n as int) && self.stash@ =~= s0.skip(n as int)'''),
                                   ('frame', 'self.ring == old(self).ring && self.returned_total == old(self).returned_total && self.ring_start_line == old(self).ring_start_line && self.ring_start_offset == old(self).ring_start_offset && self.inner == old(self).inner'),
                                   ('facts', 's0 == old(self).stash@ && out0 == old(out)@')],
                        ensures=[('done', 'n == out@.len() || self.stash@.len() == 0')],
                        decreases='out@.len() - n')},
         canaries=['C09:read_ahead_bytes_are_handed_out_first_in_order_and_none_is_lost']),
    dict(src=RR, path='impl RingReader/fn next_inner_offset', props=['C17'],
         ensures=[('value', 'r == (if self.returned_total + self.stash@.len() <= u64::MAX { (self.returned_total + self.stash@.len()) as u64 } else { u64::MAX })')]),
    # ---- the Read implementation: the wrapper is transparent ----
    dict(src=RR, path='impl Read for RingReader/fn read', id='RingReader::read', impl_header='impl RingReader<ByteSrc>', props=['C09', 'C17', 'C10', 'C01'],
         rewrites=[(r'io::Result<usize>', 'Result<usize, IoErr>', 1, 'R6'),
                   (r'buf\.is_empty\(\)', '(buf.len() == 0)', 1, 'R8'),
                   (r'buf\.get\(\.\.n\)', 'slice_get_to(buf, n)', 1, 'R8')],
         proofs=[dict(at='start', ghost=True, text='let ghost s0 = self.stash@; let ghost rem0 = self.inner.remaining();'),
                 dict(after='let n = self.drain_stash_into(buf);', text='''
                     assert((s0 + rem0).take(n as int) =~= s0.take(n as int));
                     assert(s0.skip(n as int) + rem0 =~= (s0 + rem0).skip(n as int));
                     assert(rem0.take(0) =~= Seq::<u8>::empty()); assert(self.ring@ + Seq::<u8>::empty() =~= self.ring@);'''),
                 dict(before='let abs_start = self.returned_total;', text='''
                     assert(s0 =~= Seq::<u8>::empty()); assert(s0 + rem0 =~= rem0);
                     assert(self.stash@ + self.inner.remaining() =~= self.inner.remaining());
                     assert(chunk@ =~= rem0.take(n as int));''')],
         requires=[('well_formed', 'old(self).stash.wf() && old(self).ring.wf() && old(self).window_ok()'),
                   ('history_shorter_than_2_64', '''old(self).returned_total + old(self).stash@.len() + old(buf)@.len() <= u64::MAX
                        && old(self).ring_start_line + old(buf)@.len() <= usize::MAX''')],
         ensures=[('well_formed', 'final(self).stash.wf() && final(self).ring.wf()'),
                  ('C17:the_window_still_ends_where_reading_stopped', 'final(self).window_ok()'),
                  ('C09:the_consumer_receives_exactly_the_next_bytes_of_the_stream_read_ahead_first', '''match r {
                        Ok(n) => n <= old(buf)@.len() && final(buf)@.len() == old(buf)@.len()
                            && final(buf)@.take(n as int) =~= %(o)s.take(n as int) && %(n)s =~= %(o)s.skip(n as int)
                            && final(self).returned_total == old(self).returned_total + n,
                        Err(_) => final(self).stash@ =~= old(self).stash@ && final(self).returned_total == old(self).returned_total }''' % dict(o=_STREAM_OLD, n=_STREAM_NEW)),
                  ('C17:every_byte_newly_read_from_the_source_enters_the_window_exactly_once', '''r is Ok ==> ({
                        let fresh = %(f)s;
                        &&& final(self).ring@ =~= last_n(old(self).ring@ + fresh, RING_BUFFER_SIZE as int)
                        &&& final(self).ring_start_line == old(self).ring_start_line + breaks_before(old(self).ring@ + fresh, evicted_len(old(self).ring@ + fresh, RING_BUFFER_SIZE as int)) })''' % dict(f=_FRESH)),
                  ('C10:a_reader_error_is_passed_on_not_swallowed', '(r is Err) == (final(self).inner.errors_returned() > old(self).inner.errors_returned())')],
         canaries=['C09:the_consumer_receives_exactly_the_next_bytes_of_the_stream_read_ahead_first']),
]
ITEMS += [
    dict(src=RR, path='impl RingReader/fn read_ahead_at_most', impl_header='impl RingReader<ByteSrc>', props=['C09', 'C17', 'C10', 'C01'],
         attrs='#[verifier::exec_allows_no_decreases_clause]',
         loop_rewrites=[(2, 'slice')],
         rewrites=[(r'io::Result<usize>', 'Result<usize, IoErr>', 1, 'R6'), (r'where\s*R: Read,', '', 1, 'R9'),
                   (r'self\.inner\.read\(&mut scratch\[\.\.want\]\)', 'bytesrc_read_prefix(&mut self.inner, &mut scratch, want)', 1, 'R8'),
                   (r'&scratch\[\.\.n\]', 'array_prefix(&scratch, n)', 1, 'R8'),
                   (r'remaining\.min\(SCRATCH\)', '(if remaining <= SCRATCH { remaining } else { SCRATCH })', 1, 'R8')],
         requires=[('well_formed', 'old(self).stash.wf() && old(self).ring.wf() && old(self).window_ok()'),
                   ('C09:the_caller_never_asks_for_more_than_the_read_ahead_store_can_hold', 'old(self).stash@.len() + max_additional <= MAX_READ_AHEAD'),
                   ('history_shorter_than_2_64', '''old(self).returned_total + MAX_READ_AHEAD <= u64::MAX && old(self).ring_start_line + MAX_READ_AHEAD <= usize::MAX''')],
         proofs=[dict(at='start', ghost=True, text='let ghost s0 = self.stash@; let ghost rem0 = self.inner.remaining(); let ghost g0 = self.ring@; let ghost l0 = self.ring_start_line;'),
                 dict(before_re=r'let n = bytesrc_read_prefix', ghost=True, text='let ghost s1 = self.stash@; let ghost rem1 = self.inner.remaining(); let ghost ln1 = self.ring_start_line; let ghost g1 = self.ring@; let ghost rg1 = self.ring; let ghost so1 = self.ring_start_offset;'),
                 dict(before_re=r'self\.push_ring_bytes\(chunk, abs_start\);', text='''
                     assert(chunk@ =~= rem1.take(n as int));
                     assert((s1 + chunk@) + self.inner.remaining() =~= s1 + rem1);'''),
                 dict(after_re=r'self\.push_ring_bytes\(chunk, abs_start\);', text='''
                     lemma_breaks_bound(g1 + chunk@, evicted_len(g1 + chunk@, RING_BUFFER_SIZE as int));'''),
                 ],
         ensures=[('well_formed', 'final(self).stash.wf() && final(self).ring.wf()'),
                  ('C17:the_window_still_ends_where_reading_stopped', 'final(self).window_ok()'),
                  ('C09:reading_ahead_loses_and_reorders_nothing_the_consumer_still_sees_the_same_stream_even_after_an_error',
                   '%s =~= %s && final(self).returned_total == old(self).returned_total' % (_STREAM_NEW, _STREAM_OLD)),
                  ('C09:at_most_the_allowed_number_of_bytes_is_read_ahead', 'r is Ok ==> r->Ok_0 <= max_additional && final(self).stash@.len() == old(self).stash@.len() + r->Ok_0'),
                  ('C10:a_reader_error_is_passed_on_not_swallowed', '(r is Err) == (final(self).inner.errors_returned() > old(self).inner.errors_returned())')],
         loops={1: dict(invariant=[
                    ('wf', 'self.stash.wf() && self.ring.wf() && self.window_ok() && self.returned_total == old(self).returned_total'),
                    ('stream', '%s =~= (s0 + rem0)' % _STREAM_CUR),
                    ('room', 'self.stash@.len() + remaining <= MAX_READ_AHEAD && total + remaining == max_additional && self.stash@.len() == s0.len() + total'),
                    ('no_error_so_far', 'self.inner.errors_returned() == old(self).inner.errors_returned()'),
                    ('history', 'self.returned_total + MAX_READ_AHEAD <= u64::MAX && self.ring_start_line + (MAX_READ_AHEAD - self.stash@.len()) <= usize::MAX'),
                    ('facts', 's0 == old(self).stash@ && rem0 == old(self).inner.remaining() && s0.len() + max_additional <= MAX_READ_AHEAD')]),
                2: dict(invariant=[
                    ('progress', '__i2 <= chunk@.len() && self.stash.wf() && self.stash@ =~= s1 + chunk@.take(__i2 as int) && s1.len() + chunk@.len() <= MAX_READ_AHEAD'),
                    ('frame', '''self.ring == rg1 && self.ring_start_offset == so1 && self.inner.remaining() == rem1.skip(n as int) && self.returned_total == old(self).returned_total
                        && self.ring_start_line == ln1 && self.ring@ == g1 && self.inner.errors_returned() == old(self).inner.errors_returned()'''),
                    ], decreases='chunk@.len() - __i2')},
         canaries=['C09:reading_ahead_loses_and_reorders_nothing_the_consumer_still_sees_the_same_stream_even_after_an_error']),
]

import importlib.util as _ilu, os as _os
_sp = _ilu.spec_from_file_location('contracts_snippet_for_ring', _os.path.join(_os.path.dirname(__file__), 'snippet.py'))
_sm = _ilu.module_from_spec(_sp); _sp.loader.exec_module(_sm)
# trim_to_utf8_boundaries_with_line: proved in unit `snippet`; here only its contract is used (callee contract)
_TRIM = dict([x for x in _sm.ITEMS if x['path'] == 'fn trim_to_utf8_boundaries_with_line'][0])
_TRIM.update(trusted=True, props=[]); [_TRIM.pop(k, None) for k in ('proofs', 'canaries', 'loops', 'bounded', 'rewrites')]
ITEMS += [
    dict(src=RR, path='struct RecentSnapshot', derive=''),
    dict(src=RR, path='struct FixedRingBufferIter'),
    dict(src=RR, path='impl FixedRingBuffer/fn iter', props=['C17'],
         ensures=[('starts_at_the_oldest_byte', 'r.buffer == self && r.pos == 0')]),
    dict(src=RR, path='impl Iterator for FixedRingBufferIter/fn next', id='FixedRingBufferIter::next', impl_header="impl<'a, const N: usize> FixedRingBufferIter<'a, N>",
         props=['C17', 'C01'],
         rewrites=[(r'Option<Self::Item>', 'Option<u8>', 1, 'R9')],
         requires=[('well_formed', 'old(self).buffer.wf() && old(self).pos <= old(self).buffer@.len()')],
         proofs=[dict(at='start', text='lemma_ring_slots(self.buffer.head as int, N as int);')],
         ensures=[('C17:the_bytes_come_out_oldest_first_each_once',
                   '''final(self).buffer == old(self).buffer
                      && r == (if old(self).pos < old(self).buffer@.len() { Some(old(self).buffer@[old(self).pos as int]) } else { None::<u8> })
                      && final(self).pos == old(self).pos + (if r is Some { 1int } else { 0int })''')],
         canaries=['C17:the_bytes_come_out_oldest_first_each_once']),
    _TRIM,
    dict(src=RR, path='impl RingReader/fn ring_snapshot', props=['C17', 'C01'],
         rewrites=[(r'self\.ring\.iter\(\)\.collect\(\)', 'ring_iter_collect(self.ring.iter())', 1, 'R8')],
         requires=[('well_formed', 'self.ring.wf()')],
         ensures=[('C17:the_snapshot_is_the_window_with_its_own_offset_and_line',
                   'r.2@ == self.ring@ && r.1 == self.ring_start_line && r.0 == (if self.ring@.len() == 0 { self.returned_total } else { self.ring_start_offset })')],
         canaries=['C17:the_snapshot_is_the_window_with_its_own_offset_and_line']),
]
ITEMS += [
    dict(src=RR, path='impl RingReader/fn get_recent', impl_header='impl RingReader<ByteSrc>', props=['C17', 'C09', 'C10', 'C01'],
         rewrites=[(r'io::Result<RecentSnapshot>', 'Result<RecentSnapshot, IoErr>', 1, 'R6'), (r'where\s*R: Read,', '', 1, 'R9'),
                   (r'\(start_offset, start_line, bytes\) =\s*trim_to_utf8_boundaries_with_line\(bytes, start_offset, start_line\);',
                    'let __t = trim_to_utf8_boundaries_with_line(bytes, start_offset, start_line); start_offset = __t.0; start_line = __t.1; bytes = __t.2;', 1, 'R18')],
         requires=[('well_formed', 'old(self).stash.wf() && old(self).ring.wf() && old(self).window_ok()'),
                   ('history_shorter_than_2_64', '''old(self).returned_total + MAX_READ_AHEAD <= u64::MAX && old(self).ring_start_line + MAX_READ_AHEAD <= usize::MAX''')],
         proofs=[dict(before_re=r'let end_offset = ', text='lemma_lead_conts_no_break(self.ring@, lead_conts(self.ring@) as int);')],
         ensures=[('well_formed', 'final(self).stash.wf() && final(self).ring.wf() && final(self).window_ok()'),
                  ('C09:taking_a_snapshot_does_not_disturb_the_stream_the_consumer_sees',
                   '%s =~= %s && final(self).returned_total == old(self).returned_total' % (_STREAM_NEW, _STREAM_OLD)),
                  ('C09:never_more_than_the_read_ahead_cap_is_held_back', 'final(self).stash@.len() <= MAX_READ_AHEAD'),
                  ('C17:the_snapshot_is_a_piece_of_the_window_and_its_start_line_is_the_line_of_its_first_byte', '''r is Ok ==> ({
                        let w = final(self).ring@; let cut = lead_conts(w) as int; let snap = r->Ok_0;
                        &&& cut + snap.bytes@.len() <= w.len() && snap.bytes@ =~= w.subrange(cut, cut + snap.bytes@.len())
                        &&& snap.start_line == final(self).ring_start_line + breaks_before(w, cut)
                        &&& w.len() > 0 ==> snap.start_offset == final(self).ring_start_offset + cut
                        &&& snap.end_offset == snap.start_offset + snap.bytes@.len() })'''),
                  ('C10:a_reader_error_during_read_ahead_is_passed_on', '(r is Err) == (final(self).inner.errors_returned() > old(self).inner.errors_returned())')],
         canaries=['C17:the_snapshot_is_a_piece_of_the_window_and_its_start_line_is_the_line_of_its_first_byte']),
]
