"""Unit `crop`: byte/column arithmetic of the snippet cropping helpers (src/de/snippet.rs): C01 (no slice or index panic,
no overflow) and C17 (the cropped line is the requested column window)."""
from contracts_types import *
import re
NAME = 'crop'
FEATURES = []
USES = ['use vstd::string::*;', 'use vstd::utf8::*;']
PRELUDE = ['crop.spec.rs', 'crop.breaks.spec.rs', 'crop.shim.rs']
SUBST = []
SN = 'src/de/snippet.rs'
P = ['C17', 'C01']
STRLEN = (r'\b(line|source|text|window_text)\.len\(\)', r'str_len(\1)', None, 'R8')

ITEMS = location_types() + [
    dict(src=SN, path='fn col_to_byte_offset_in_line', props=P,
         bounded=dict(harness='bounded/crop_helpers.rs', items=[('src/de/snippet.rs', 'fn col_to_byte_offset_in_line'), ('src/de/snippet.rs', 'fn line_starts')]),
         loop_rewrites=[(1, 'char_indices')], rewrites=[STRLEN],
         ensures=[('C17:column_to_byte_offset_is_exact', '''match r {
                Some(i) => 1 <= col_1 <= line@.len() + 1 && i == char_off(line@, col_1 - 1),
                None => col_1 == 0 || col_1 > line@.len() + 1 }'''),
                  ('text_length_is_bounded', 'line@.len() <= isize::MAX')],
         proofs=[dict(before='if col == col_1 {', nth=2, text='lemma_char_off_ends(line@);'),
                 dict(at='start', text='axiom_str_len_bounded(line);')],
         loops={1: dict(invariant=[('columns_scanned', 'col == __i1 + 1 && col <= col_1 && col_1 != 0 && __i1 <= __v1@.len()'),
                                   ('chars', '''__v1@.len() == line@.len() && line@.len() <= isize::MAX
                                        && forall|k: int| 0 <= k < __v1@.len() ==> (#[trigger] __v1@[k]).0 == char_off(line@, k)''')],
                        decreases='__v1@.len() - __i1')},
         canaries=['C17:column_to_byte_offset_is_exact']),
    dict(src=SN, path='fn line_starts', props=P,
         bounded=dict(harness='bounded/crop_helpers.rs', items=[('src/de/snippet.rs', 'fn col_to_byte_offset_in_line'), ('src/de/snippet.rs', 'fn line_starts')]),
         loop_rewrites=[(1, 'enumerate')],
         rewrites=[(r'source\.is_empty\(\)', 'str_len(source) == 0', 1, 'R8')],
         ensures=[('C17:line_starts_are_exactly_the_offsets_after_each_newline', 'line_starts_ok(source.spec_bytes(), source@, r@)')],
         proofs=[dict(before='starts.push(i + 1);', text='axiom_ascii_byte_is_a_char(source@, i as int);'),
                 dict(after='let mut starts = vec![0usize];', text='lemma_char_off_ends(source@);'),
                 dict(at='start', text='reveal(line_starts_ok);')],
         loops={1: dict(invariant=[
                    ('bounds', '__i1 <= source.spec_bytes().len() && source.spec_bytes().len() > 0 && source.spec_bytes().len() <= isize::MAX && starts@.len() >= 1 && starts@[0] == 0'),
                    ('starts_are_boundaries', 'forall|j: int| 0 <= j < starts@.len() ==> #[trigger] starts@[j] <= __i1 && boundary(source@, starts@[j] as int)'),
                    ('starts_follow_newlines', 'forall|j: int| 1 <= j < starts@.len() ==> starts@[j - 1] < #[trigger] starts@[j] && source.spec_bytes()[starts@[j] - 1] == 0x0a'),
                    ('no_newline_inside_a_closed_line', 'forall|j: int, p: int| 0 <= j && j + 1 < starts@.len() && #[trigger] starts@[j] <= p && p + 1 < starts@[j + 1] ==> #[trigger] source.spec_bytes()[p] != 0x0a'),
                    ('no_newline_in_the_open_line', 'forall|p: int| starts@[starts@.len() - 1] <= p < __i1 ==> #[trigger] source.spec_bytes()[p] != 0x0a')],
                    decreases='source.spec_bytes().len() - __i1')},
         canaries=['C17:line_starts_are_exactly_the_offsets_after_each_newline']),
    dict(src=SN, path='struct LineCrop'),
    dict(src=SN, path='fn crop_line_by_cols', props=P,
         bounded=dict(harness='bounded/crop_line_by_cols.rs', items=[('src/de/snippet.rs', 'struct LineCrop'), ('src/de/snippet.rs', 'fn crop_line_by_cols'), ('src/de/snippet.rs', 'fn col_to_byte_offset_in_line')]),
         rewrites=[STRLEN,
                   (r'line\.chars\(\)\.count\(\)', 'str_chars_count(line)', 1, 'R8'),
                   (r'line\.to_owned\(\)', 'str_to_owned(line)', None, 'R8'),
                   (r"out\.push\('…'\);", "string_push(&mut out, '…');", None, 'R8'),
                   (r'out\.push_str\(&line\[start_byte\.\.end_byte\]\);', 'string_push_str(&mut out, str_slice(line, start_byte, end_byte));', 1, 'R8')],
         requires=[('window_not_inverted', '1 <= left_col_1 <= right_col_1')],
         ensures=[('C17:line_is_cropped_to_exactly_the_column_window_with_ellipses', '''({ let n = line@.len() as int; let ell = seq!['…'];
                if n == 0 { r.0@ == Seq::<char>::empty() && r.1.start_byte == 0 && r.1.prefix_bytes == 0 }
                else if left_col_1 >= n + 1 || (left_col_1 <= 1 && right_col_1 >= n) { r.0@ == line@ && r.1.start_byte == 0 && r.1.prefix_bytes == 0 }
                else { let s = left_col_1 as int; let e = if right_col_1 + 1 < n + 1 { right_col_1 + 1 } else { n + 1 };
                    r.0@ == (if s > 1 { ell } else { Seq::<char>::empty() }) + line@.subrange(s - 1, e - 1) + (if e <= n { ell } else { Seq::<char>::empty() })
                    && r.1.start_byte == char_off(line@, s - 1) && r.1.prefix_bytes == (if s > 1 { 3usize } else { 0usize }) } })'''),
                  ('C17:a_cropped_line_is_at_most_two_ellipses_longer_than_the_line', 'encode_utf8(r.0@).len() <= line.spec_bytes().len() + 6 && r.1.prefix_bytes <= 3 && r.1.start_byte <= line.spec_bytes().len()')],
         proofs=[dict(at='start', text='''axiom_str_len_bounded(line);
                    if line@.len() > 0 && 1 <= left_col_1 <= line@.len() {
                        let n = line@.len() as int; let e = if right_col_1 + 1 < n + 1 { right_col_1 + 1 } else { n + 1 };
                        lemma_cropped_len(line@, left_col_1 as int - 1, e - 1);
                    }'''),
                 dict(before='let left_clipped = start_col > 1 && start_byte > 0;', text='''
                    lemma_char_off_ends(line@);
                    lemma_char_off_monotonic(line@, 0, start_col as int - 1);
                    lemma_char_off_monotonic(line@, start_col as int - 1, end_col_excl as int - 1);
                    lemma_char_off_monotonic(line@, end_col_excl as int - 1, line@.len() as int);
                    lemma_char_index_of_off(line@, start_col as int - 1);
                    lemma_char_index_of_off(line@, end_col_excl as int - 1);''')],
         canaries=['C17:line_is_cropped_to_exactly_the_column_window_with_ellipses']),
    dict(src=SN, path='enum LineMapping', derive='#[derive(Clone, Copy)]'),
    dict(src=SN, path='fn sanitize_terminal_snippet_preserve_len', trusted=True, props=[],
         ensures=[('proved_in_unit_snippet', 'true')]),
    # F29: the text whose lines are split at LF must have no other line break the scanner counts (a CR not followed by LF).
    # The two helpers are iterator pipelines (outside the verifier's subset): contract assumed here, bounded stand-in on the real text.
    dict(src=SN, path='fn has_lone_cr', props=[], bounded_props=P, optional=True, trusted=True, bounded_only=True,
         bounded=dict(harness='bounded/lone_cr.rs', items=[('src/de/snippet.rs', 'fn has_lone_cr'), ('src/de/snippet.rs', 'fn lone_cr_to_lf')]),
         ensures=[('C17:a_lone_carriage_return_is_recognised_exactly', 'r == has_lone_cr_spec(text.spec_bytes())')]),
    dict(src=SN, path='fn lone_cr_to_lf', props=[], bounded_props=P, optional=True, trusted=True, bounded_only=True,
         bounded=dict(harness='bounded/lone_cr.rs', items=[('src/de/snippet.rs', 'fn has_lone_cr'), ('src/de/snippet.rs', 'fn lone_cr_to_lf')]),
         ensures=[('C17:exactly_the_lone_carriage_returns_become_line_feeds_and_every_other_byte_stays',
                   '''r@.len() == text@.len() && encode_utf8(r@).len() == text.spec_bytes().len() && !has_lone_cr_spec(encode_utf8(r@))
                      && forall|i: int| 0 <= i < text.spec_bytes().len() ==> #[trigger] encode_utf8(r@)[i] == (if lone_cr_at(text.spec_bytes(), i) { 0x0Au8 } else { text.spec_bytes()[i] })''')]),
    dict(src=SN, path='fn crop_source_window', props=P,
         rewrites=[
            (r'text\.is_empty\(\) \|\| location == &Location::UNKNOWN', 'str_len(text) == 0 || *location == Location::UNKNOWN', 1, 'R15'),
            (r"text\.strip_prefix\('\\u\{FEFF\}'\)\.unwrap_or\(text\)", 'str_strip_bom(text)', 1, 'R8'),
            (r'relative_row\.saturating_sub\(2\)\.max\(1\)', 'usize_max(relative_row.saturating_sub(2), 1)', 1, 'R8'),
            (r'relative_row\.saturating_add\(2\)\.min\(total_lines\)', 'usize_min(relative_row.saturating_add(2), total_lines)', 1, 'R8'),
            (r'window_start_row\.min\(window_end_row\)', 'usize_min(window_start_row, window_end_row)', 1, 'R8'),
            (r'&text\[window_start\.\.window_end\]', 'str_slice(text, window_start, window_end)', 1, 'R8'),
            (r'window_text\.to_owned\(\)', 'str_to_owned(window_text)', None, 'R8'),
            (r'\|\| window_text\s*\.lines\(\)\s*\.any\(\|l\| l\.strip_suffix\(\'\\r\'\)\.unwrap_or\(l\)\.len\(\) > 4 \* 1024\)', '|| str_any_line_longer_than(window_text, 4 * 1024)', 1, 'R8'),
            (r'error_col\.saturating_sub\(crop_radius\)\.max\(1\)', 'usize_max(error_col.saturating_sub(crop_radius), 1)', 1, 'R8'),
            (r'String::with_capacity\(window_text\.len\(\)\.min\(4096\)\)', 'string_with_capacity(usize_min(str_len(window_text), 4096))', 1, 'R8'),
            (r"window_text\[old_pos\.\.\]\.find\('\\n'\)\.map\(\|i\| old_pos \+ i\)", 'str_find_lf_from(window_text, old_pos)', 1, 'R8+R18'),
            (r'&window_text\[old_pos\.\.nl\]', 'str_slice(window_text, old_pos, nl)', 1, 'R8'),
            (r'&window_text\[old_pos\.\.\]', 'str_slice(window_text, old_pos, str_len(window_text))', 1, 'R8'),
            (r"line_raw\.strip_suffix\('\\r'\)\.unwrap_or\(line_raw\)", 'str_strip_cr_suffix(line_raw)', 1, 'R8'),
            (r'out\.push_str\(&line\[\.\.end_byte\]\);', 'string_push_str(&mut out, str_slice(line, 0, end_byte));', 1, 'R8'),
            (r'out\.push_str\(&rendered\);', 'string_push_str(&mut out, rendered.as_str());', 1, 'R8'),
            (r"out\.push\('…'\);", "string_push(&mut out, '…');", None, 'R8'),
            (r"out\.push\('\\n'\);", "string_push(&mut out, '\\\\n');", None, 'R8'),
            STRLEN,
         ],
         proofs=[
            dict(before='let starts = line_starts(text);', label='C17:lines_are_split_at_line_feeds_only_in_text_that_has_no_other_line_break_the_location_counts',
                 text='assert(!has_lone_cr_spec(text.spec_bytes()));'),
            dict(before='let window_start = starts[window_start_row - 1];', label='C17:window_is_at_most_two_lines_either_side_and_contains_the_error_line',
                 text='''assert(1 <= window_start_row <= relative_row <= window_end_row <= total_lines
                        && relative_row - window_start_row <= 2 && window_end_row - relative_row <= 2);'''),
            dict(before='let window_text = str_slice(text, window_start, window_end);', text='''lemma_char_off_ends(text@);
                 if window_end_row < total_lines { lemma_line_starts_facts(text.spec_bytes(), text@, starts@, window_start_row as int - 1, window_end_row as int); }
                 else { lemma_line_starts_facts(text.spec_bytes(), text@, starts@, window_start_row as int - 1, window_start_row as int - 1); }'''),
            dict(before='let mut old_pos = 0usize;', text='lemma_char_off_ends(window_text@);'),
            dict(before='string_push_str(&mut out, str_slice(line, 0, end_byte));', label='C17:error_line_is_cut_only_right_of_error_column_plus_radius',
                 text='''assert(end_byte == char_off(line@, if right_col < line@.len() { right_col as int } else { line@.len() as int }));'''),
            dict(after='let mut row = window_start_row;', text='assert(old_pos <= window_text.spec_bytes().len() && boundary(window_text@, old_pos as int)); assert(1 <= left_col <= right_col);'),
            dict(after='let next_nl = str_find_lf_from(window_text, old_pos);', text='''lemma_char_off_ends(window_text@);
                 if next_nl is Some { axiom_ascii_byte_is_a_char(window_text@, next_nl->Some_0 as int); }'''),
            dict(before='let right_clipped = end_byte < str_len(line);', text='lemma_char_off_ends(line@); lemma_char_offs_are_boundaries(line@);'),
         ],
         loops={1: dict(invariant=[
                    ('position_is_a_char_boundary', 'old_pos <= window_text.spec_bytes().len() && boundary(window_text@, old_pos as int)'),
                    ('column_window_not_inverted', '1 <= left_col <= right_col'),
                 ], decreases='window_text.spec_bytes().len() - old_pos')},
         ),
    dict(src=SN, path='fn is_terminal_snippet_clean', trusted=True, props=[], ensures=[('proved_in_unit_snippet', 'true')]),
    dict(src=SN, path='fn crop_window_text', props=P,
         rewrites=[
            (r"!window_text\.as_bytes\(\)\.contains\(&b'\\r'\)", "!str_contains_byte(window_text, b'\\\\r')", 1, 'R8'),
            (r'window_text\.to_owned\(\)', 'str_to_owned(window_text)', None, 'R8'),
            (r'error_col\.saturating_sub\(crop_radius\)\.max\(1\)', 'usize_max(error_col.saturating_sub(crop_radius), 1)', 1, 'R8'),
            (r'String::with_capacity\(window_text\.len\(\)\.min\(4096\)\)', 'string_with_capacity(usize_min(str_len(window_text), 4096))', 1, 'R8'),
            (r"window_text\[old_pos\.\.\]\.find\('\\n'\)\.map\(\|i\| old_pos \+ i\)", 'str_find_lf_from(window_text, old_pos)', 1, 'R8+R18'),
            (r'&window_text\[old_pos\.\.nl\]', 'str_slice(window_text, old_pos, nl)', 1, 'R8'),
            (r'&window_text\[old_pos\.\.\]', 'str_slice(window_text, old_pos, str_len(window_text))', 1, 'R8'),
            (r"line_raw\.strip_suffix\('\\r'\)\.unwrap_or\(line_raw\)", 'str_strip_cr_suffix(line_raw)', 1, 'R8'),
            (r'line\.to_owned\(\)', 'str_to_owned(line)', 1, 'R8'),
            (r'out\.push_str\(&rendered_line\);', 'string_push_str(&mut out, rendered_line.as_str());', 1, 'R8'),
            (r"out\.push\('\\n'\);", "string_push(&mut out, '\\\\n');", None, 'R8'),
            (r'\bout\.len\(\)', 'string_len(&out)', None, 'R8'),
            (r'rendered_line\.len\(\)', 'string_len(&rendered_line)', None, 'R8'),
            (r'old_in_line_start\.min\(line\.len\(\)\)', 'usize_min(old_in_line_start, str_len(line))', 1, 'R8'),
            (r'old_in_line_end\.min\(line\.len\(\)\)', 'usize_min(old_in_line_end, str_len(line))', 1, 'R8'),
            (r'new_local_start\.min\(max\)', 'usize_min(new_local_start, max)', None, 'R8'),
            (r'new_local_end\.min\(max\)', 'usize_min(new_local_end, max)', None, 'R8'),
            (r"window_text\.ends_with\('\\n'\)", 'str_ends_with_lf(window_text)', 1, 'R8'),
            STRLEN,
         ],
         requires=[('rows_fit', 'window_start_row <= isize::MAX'),
                   ('text_below_2_59_bytes', 'window_text.spec_bytes().len() <= usize::MAX / 32')],
         ensures=[('C17:the_marker_span_is_either_untouched_with_the_text_or_well_ordered', 'r.1 <= r.2 || (r.0@ == window_text@ && r.1 == local_start && r.2 == local_end)'),
                  ],
         loops={1: dict(invariant=[
                    ('position_is_a_char_boundary', 'old_pos <= window_text.spec_bytes().len() && boundary(window_text@, old_pos as int)'),
                    ('column_window_not_inverted', 'do_crop ==> 1 <= left_col <= right_col'),
                    ('column_window_contains_the_error_column', 'do_crop && error_col >= 1 ==> left_col <= error_col <= right_col'),
                    ('rows', 'row <= window_start_row + old_pos && window_start_row <= isize::MAX'),
                    ('output_grows_with_the_input', 'encode_utf8(out@).len() <= 8 * old_pos && window_text.spec_bytes().len() <= usize::MAX / 32'),
                 ], decreases='window_text.spec_bytes().len() - old_pos')},
         proofs=[
            dict(before='let mut old_pos = 0usize;', text='lemma_char_off_ends(window_text@);'),
            dict(after='let next_nl = str_find_lf_from(window_text, old_pos);', text='''lemma_char_off_ends(window_text@);
                 if next_nl is Some { axiom_ascii_byte_is_a_char(window_text@, next_nl->Some_0 as int); }'''),
            dict(before='let out = sanitize_terminal_snippet_preserve_len(out);', label='C17:the_rebased_marker_span_lies_inside_the_cropped_text',
                 text='assert(new_local_start <= new_local_end && new_local_end <= encode_utf8(out@).len());'),
            dict(after='let line = str_strip_cr_suffix(line_raw);', text='lemma_strip_cr_len(line_raw@); axiom_str_len_bounded(line);'),
            # the marker keeps pointing at the character it pointed at (conditional on what the renderers hand in: the span starts at
            # the reported column of this line - proved for them in the #marker fragments)
            dict(before='rebased = true;', label='C17:the_rebased_marker_still_starts_at_the_character_of_the_reported_column',
                 text="""
                 if error_col >= 1 && error_col - 1 <= line@.len() && local_start == line_start_old + char_off(line@, error_col as int - 1) {
                     let c = error_col as int; let n = line@.len() as int; let ell = seq!['…'];
                     lemma_char_off_ends(line@); lemma_char_off_ends(rendered_line@); lemma_ellipsis_is_three_bytes();
                     lemma_char_off_monotonic(line@, 0, c - 1); lemma_char_off_monotonic(line@, c - 1, n);
                     let k: int = if !do_crop || n == 0 || left_col >= n + 1 || (left_col <= 1 && right_col >= n) { c - 1 } else {
                         let s0 = left_col as int; let e0 = if right_col + 1 < n + 1 { right_col + 1 } else { n + 1 };
                         let pre = if s0 > 1 { ell } else { Seq::<char>::empty() }; let post = if e0 <= n { ell } else { Seq::<char>::empty() };
                         lemma_char_off_in_framed_subrange(pre, line@, s0 - 1, e0 - 1, post, c - 1);
                         lemma_char_off_monotonic(line@, s0 - 1, c - 1);
                         assert(encode_utf8(Seq::<char>::empty()).len() == 0) by { reveal_with_fuel(encode_utf8, 1); }
                         pre.len() + (c - s0) };
                     assert(0 <= k <= rendered_line@.len());
                     lemma_char_off_monotonic(rendered_line@, k, rendered_line@.len() as int);
                     assert(new_local_start == line_start_new + char_off(rendered_line@, k));
                     assert(c - 1 < n ==> k < rendered_line@.len() && rendered_line@[k] == line@[c - 1]);
                 }"""),
            dict(before='string_push_str(&mut out, rendered_line.as_str());', ghost=True, text='let ghost out_b = out@;'),
            dict(after='string_push_str(&mut out, rendered_line.as_str());', text='encode_utf8_concat(out_b, rendered_line@);'),
            dict(before_re=r"string_push\(&mut out, '\\n'\);", ghost=True, text='let ghost out_c = out@;'),
            dict(after_re=r"string_push\(&mut out, '\\n'\);", text='lemma_push_lf_len(out_c);'),
         ]),
]
ITEMS += [
    # (row, column) -> byte offset inside a text whose line starts are known: where the marker of a report is put
    dict(src=SN, path='fn line_col_to_byte_offset_with_starts', props=P,
         rewrites=[(r'starts\.is_empty\(\)', '(starts.len() == 0)', 1, 'R8'),
                   (r'starts\[row_idx \+ 1\]\.saturating_sub\(1\)', 'usize_sub_sat(starts[row_idx + 1], 1)', 1, 'R8'),
                   (r"source\.as_bytes\(\)\.get\(line_end - 1\) == Some\(&b'\\r'\)", "str_byte_is(source, line_end - 1, b'\\\\r')", 1, 'R8'),
                   (r'&source\[line_start\.\.line_end\]', 'str_slice(source, line_start, line_end)', 1, 'R8'),
                   (r'col_to_byte_offset_in_line\(line, col_1\)\.map\(\|off\| line_start \+ off\)',
                    """(match col_to_byte_offset_in_line(line, col_1) { Some(off) => { proof {
                        let ia = char_index(source@, line_start as int); let ib = char_index(source@, line_end as int);
                        assert(line@.len() == ib - ia && 0 <= col_1 - 1 <= ib - ia);
                        assert(line_start + char_off(line@, col_1 - 1) == char_off(source@, ia + (col_1 - 1)));
                        assert(char_off(source@, ib) == line_end);
                        lemma_char_index_of_off(source@, ia + (col_1 - 1));
                        lemma_char_off_monotonic(source@, ia + (col_1 - 1), char_index(source@, line_end as int));
                    } Some(line_start + off) }, None => None })""", 1, 'R18'),
                   STRLEN],
         requires=[('starts_are_the_line_starts_of_the_text', 'line_starts_ok(source.spec_bytes(), source@, starts@)')],
         proofs=[dict(at='start', text='lemma_char_off_ends(source@); axiom_str_len_bounded(source);'),
                 dict(after_re=r'let line_start = starts\[row_idx\];', text="""
                     lemma_line_starts_facts(source.spec_bytes(), source@, starts@, row_idx as int, row_idx as int);
                     if row_idx + 1 < starts@.len() {
                         lemma_line_starts_facts(source.spec_bytes(), source@, starts@, row_idx as int, row_idx as int + 1);
                         lemma_line_start_follows_lf(source.spec_bytes(), source@, starts@, row_idx as int + 1);
                         axiom_ascii_byte_is_a_char(source@, starts@[row_idx as int + 1] as int - 1);
                     }"""),
                 dict(after_re=r'let mut line_end = [^;]*;', ghost=True, text='let ghost line_end0 = line_end;'),
                 dict(before_re=r'if line_end > line_start && str_byte_is', text='assert(boundary(source@, line_end as int) && line_start <= line_end && line_end <= source.spec_bytes().len());'),
                 dict(before_re=r'let line = str_slice', text="""
                     if line_end < line_end0 { axiom_ascii_byte_is_a_char(source@, line_end as int); }
                     lemma_slice_char_offs(source@, line_start as int, line_end as int);""")],
         ensures=[('C17:the_offset_is_the_reported_column_counted_in_characters_from_the_start_of_the_reported_line', """match r {
                Some(off) => 1 <= row_1 <= starts@.len() && col_1 >= 1 && boundary(source@, off as int) && starts@[row_1 - 1] <= off <= source.spec_bytes().len()
                    && char_index(source@, off as int) == char_index(source@, starts@[row_1 - 1] as int) + (col_1 - 1)
                    && (row_1 < starts@.len() ==> off < starts@[row_1 as int]),
                None => true }""")],
         canaries=['C17:the_offset_is_the_reported_column_counted_in_characters_from_the_start_of_the_reported_line']),
]
ITEMS += [
    # the end of the one-character marker span
    dict(src=SN, path='fn next_char_boundary', props=P,
         rewrites=[(r'&source\[start\.\.\]', 'str_slice(source, start, str_len(source))', 1, 'R8'),
                   # R40: two successive next() calls on a char_indices() iterator are read off the collected vector of (offset, char) pairs
                   (r'let mut it = s\.char_indices\(\);\s*let _ = it\.next\(\)\?;\s*match it\.next\(\) \{\s*Some\(\(i, _\)\) => Some\(start \+ i\),\s*None => Some\(source\.len\(\)\),\s*\}',
                    """let it = str_char_indices(s);
    proof {
        let n = source.spec_bytes().len() as int; let ia = char_index(source@, start as int); let ib = char_index(source@, n);
        lemma_slice_char_offs(source@, start as int, n);
        assert(s@.len() == ib - ia);
        if ib - ia >= 1 {
            assert(start + char_off(s@, 1) == char_off(source@, ia + 1));
            lemma_char_index_of_off(source@, ia + 1);
            lemma_char_off_monotonic(source@, ia, ia + 1);
            lemma_char_off_monotonic(source@, ia + 1, ib);
        }
    }
    if it.len() == 0 { return None; }
    if it.len() > 1 { let i = it[1].0; Some(start + i) } else { Some(source.len()) }""", 1, 'R40'),
                   STRLEN],
         requires=[('start_is_a_char_boundary', 'boundary(source@, start as int)')],
         proofs=[dict(at='start', text='lemma_char_off_ends(source@); axiom_str_len_bounded(source);')],
         ensures=[('C17:the_marker_span_ends_at_the_next_character', """match r {
                Some(e) => start < source.spec_bytes().len() && boundary(source@, e as int) && start < e <= source.spec_bytes().len()
                    && char_index(source@, e as int) == char_index(source@, start as int) + 1,
                None => start >= source.spec_bytes().len() }""")],
         canaries=['C17:the_marker_span_ends_at_the_next_character']),
]
# ---- where the marker goes: the part of Snippet::fmt_or_fallback (and of its sibling for the "defined here" window) between the
# line table and the horizontal crop, lifted as a fragment; the early `return fmt_with_location(..)` fall-backs become `return None`
def _marker_fragment(path, fid, text_expr, row, fallback_re, impl=None):
    d = dict(src=SN, path=path, id=fid, props=P,
         fragment=r'let line_starts = line_starts\(%s\);.*?let local_end = end\.saturating_sub\(window_start\)\.min\(window_text\.len\(\)\);' % re.escape(text_expr),
         fragment_flags='S',
         wrapper="fn %s(text: &str, %s: usize, col: usize) -> Option<(usize, usize, usize, usize, usize, usize, Vec<usize>)> { {FRAG} Some((window_start, window_end, local_start, local_end, window_start_row, window_end_row, line_starts)) }" % (re.sub(r'\W', '_', fid), row),
         pre_rewrites=[(re.escape(text_expr), 'text', None, 'R9'), (fallback_re, 'return None;', None, 'R9')],
         rewrites=[(r'let Some\(start\) =\s*line_col_to_byte_offset_with_starts\(text, &line_starts, %s, col\)\s*else \{\s*return None;\s*\};' % row,
                    'let start = match line_col_to_byte_offset_with_starts(text, line_starts.as_slice(), %s, col) { Some(__s) => __s, None => { return None; } };' % row, 1, 'R22'),
                   (r"match text\.as_bytes\(\)\.get\(start\) \{\s*Some\(b'\\n'\) \| Some\(b'\\r'\) => start,\s*_ => next_char_boundary\(text, start\)\.unwrap_or\(start\),\s*\}",
                    "if str_byte_is(text, start, b'\\\\n') || str_byte_is(text, start, b'\\\\r') { start } else { match next_char_boundary(text, start) { Some(__e) => __e, None => start } }", 1, 'R18'),
                   (r'%s\.saturating_sub\(2\)\.max\(1\)' % row, 'usize_max(%s.saturating_sub(2), 1)' % row, 1, 'R8'),
                   (r'%s\.saturating_add\(2\)\.min\(total_lines\)' % row, 'usize_min(%s.saturating_add(2), total_lines)' % row, 1, 'R8'),
                   (r'window_start_row\.min\(window_end_row\)', 'usize_min(window_start_row, window_end_row)', 1, 'R8'),
                   (r'&text\[window_start\.\.window_end\]', 'str_slice(text, window_start, window_end)', 1, 'R8'),
                   (r'start\.saturating_sub\(window_start\)\.min\(window_text\.len\(\)\)', 'usize_min(start.saturating_sub(window_start), str_len(window_text))', 1, 'R8'),
                   (r'end\.saturating_sub\(window_start\)\.min\(window_text\.len\(\)\)', 'usize_min(end.saturating_sub(window_start), str_len(window_text))', 1, 'R8'),
                   (r'line_starts\.is_empty\(\)', '(line_starts.len() == 0)', 1, 'R8'),
                   STRLEN],
         proofs=[dict(at='start', text='lemma_char_off_ends(text@); axiom_str_len_bounded(text);'),
                 dict(before='let window_start = line_starts[window_start_row - 1];', text="""
                     assert(1 <= window_start_row <= %(row)s <= window_end_row <= total_lines);
                     lemma_line_starts_facts(text.spec_bytes(), text@, line_starts@, window_start_row as int - 1, %(row)s as int - 1);
                     if window_end_row < total_lines {
                         lemma_line_starts_facts(text.spec_bytes(), text@, line_starts@, %(row)s as int - 1, window_end_row as int);
                         if %(row)s < window_end_row { lemma_line_starts_facts(text.spec_bytes(), text@, line_starts@, %(row)s as int, window_end_row as int); }
                     }""" % dict(row=row)),
                 dict(before_re=r'let local_start = usize_min', text="""
                     assert(window_start <= start && start <= end);
                     if window_end_row < total_lines {
                         lemma_line_starts_facts(text.spec_bytes(), text@, line_starts@, %(row)s as int, window_end_row as int);
                         if end > start {
                             lemma_boundary_order(text@, start as int, line_starts@[%(row)s as int] as int);
                             lemma_boundary_order(text@, end as int, line_starts@[%(row)s as int] as int);
                         }
                     }
                     assert(end <= window_end);""" % dict(row=row))],
         ensures=[('C17:the_marker_starts_at_the_reported_column_of_the_reported_line_inside_the_window', """match r {
                Some(t) => ({ let ws = t.0 as int; let we = t.1 as int; let ls = t.2 as int; let le = t.3 as int; let r0 = t.4 as int; let r1 = t.5 as int;
                    let starts = t.6@;
                    &&& line_starts_ok(text.spec_bytes(), text@, starts)
                    &&& 1 <= r0 <= %(row)s <= r1 <= starts.len() && %(row)s - r0 <= 2 && r1 - %(row)s <= 2
                    &&& ws == starts[r0 - 1] && ws <= we <= text.spec_bytes().len() && boundary(text@, ws) && boundary(text@, we)
                    &&& ls <= le <= we - ws && boundary(text@, ws + ls) && boundary(text@, ws + le)
                    &&& char_index(text@, ws + ls) == char_index(text@, starts[%(row)s - 1] as int) + (col - 1)
                    &&& (le == ls || char_index(text@, ws + le) == char_index(text@, ws + ls) + 1) }),
                None => true }""" % dict(row=row))],
         canaries=['C17:the_marker_starts_at_the_reported_column_of_the_reported_line_inside_the_window'])
    if impl:
        d['impl_header'] = impl
    return d
ITEMS += [
    _marker_fragment('impl Snippet/fn fmt_or_fallback', 'Snippet::fmt_or_fallback#marker', 'self.source.text', 'relative_row', r'return fmt_with_location\(f, l10n, msg, location\);'),
    _marker_fragment('fn fmt_snippet_window_with_mapping_or_fallback', 'fmt_snippet_window_with_mapping_or_fallback#marker', 'text', 'row', r'return Ok\(\(\)\);'),
]
ITEMS += [
    # F31: the source handed to miette must be the text the locations refer to (no leading byte order mark)
    dict(src='src/miette.rs', path='fn to_miette_report_with_formatter', id='to_miette_report_with_formatter#source', props=P, features=['miette'],
         fragment=r'(let source = source\.strip_prefix[^;]*;\s*)?let sanitized_source = sanitize_terminal_snippet_preserve_len\(source\.to_owned\(\)\);',
         fragment_flags='S',
         wrapper="fn miette_source_fragment(source: &str) -> String { let ghost source0 = source@; {FRAG} sanitized_source }",
         rewrites=[(r"source\.strip_prefix\('\\u\{FEFF\}'\)\.unwrap_or\(source\)", 'str_strip_bom(source)', None, 'R8'),
                   (r'source\.to_owned\(\)', 'str_to_owned(source)', 1, 'R8')],
         proofs=[dict(before_re=r'let sanitized_source = ', label='C17:the_source_given_to_miette_is_the_text_without_a_leading_byte_order_mark_which_is_what_locations_refer_to',
                      text="assert(source@ == (if source0.len() > 0 && source0[0] == '\\u{FEFF}' { source0.skip(1) } else { source0 }));")],
         ensures=[('sanitised_copy', 'true')]),
]
# ---- the hand-written renderer of the "defined here" window: where its caret goes (two identical statements) ----
def _caret_fragment(nth):
    return dict(src=SN, path='fn fmt_snippet_window_with_mapping_or_fallback', id='fmt_snippet_window_with_mapping_or_fallback#caret%d' % nth, props=P,
         fragment=r'(let line_byte_start = [^;]*;\s*)?let caret_chars = [^;]*;', fragment_flags='S', fragment_nth=nth, fragment_count=2,
         wrapper="fn caret_fragment_%d(window_text: &str, local_start: usize, col: usize) -> usize { {FRAG} caret_chars }" % nth,
         rewrites=[(r"window_text\[\.\.local_start\]\s*\.rfind\('\\n'\)\s*\.map\(\|i\| i \+ 1\)\s*\.unwrap_or\(0\)", 'str_line_start_before(window_text, local_start)', 1, 'R8+R18'),
                   (r'window_text\[line_byte_start\.\.local_start\]\.chars\(\)\.count\(\)', 'str_chars_count(str_slice(window_text, line_byte_start, local_start))', 1, 'R8')],
         requires=[('the_marker_offset_is_a_char_boundary_of_the_window', 'local_start <= window_text.spec_bytes().len() && boundary(window_text@, local_start as int)')],
         proofs=[dict(at='start', text='lemma_char_off_ends(window_text@);'),
                 dict(before_re=r'let caret_chars = ', text="""
                     lemma_slice_char_offs(window_text@, line_start_before(window_text.spec_bytes(), local_start as int), local_start as int);""")],
         ensures=[('C17:the_caret_is_indented_by_the_number_of_characters_between_the_start_of_its_line_and_the_marker',
                   """({ let ls = line_start_before(window_text.spec_bytes(), local_start as int);
                       r == char_index(window_text@, local_start as int) - char_index(window_text@, ls) })""")],
         canaries=['C17:the_caret_is_indented_by_the_number_of_characters_between_the_start_of_its_line_and_the_marker'])
ITEMS += [_caret_fragment(1), _caret_fragment(2)]

# ---- F45: a source line of the secondary window and the caret line below it have the same gutter (source line + caret block of the `for` body) ----
_GUT_RW = [(r'writeln!\(f, "\{display_row:>(\w+)\$\} \| \{line\}"\)\?;', r'fmt_gutter_line(f, \1)?;', 1, 'R12'),
           (r'writeln!\(\s*f,\s*"\{space:>(\w+)\$\} \| \{space:>caret_chars\$\}\^(?: \{msg\})?",[^;]*?\)\?;', r'fmt_gutter_line(f, \1)?;', None, 'R12'),
           (r'writeln!\(\s*f,\s*"  \| \{space:>caret_chars\$\}\^(?: \{msg\})?",[^;]*?\)\?;', r'fmt_gutter_line(f, 2)?;', None, 'R12'),   # a fixed gutter of two columns
           (r'msg\.is_empty\(\)', 'str_is_empty_c(msg)', None, 'R8'),
           (r"window_text\[\.\.local_start\]\s*\.rfind\('\\n'\)\s*\.map\(\|i\| i \+ 1\)\s*\.unwrap_or\(0\)", 'str_line_start_before(window_text, local_start)', None, 'R8+R18'),
           (r'window_text\[line_byte_start\.\.local_start\]\.chars\(\)\.count\(\)', 'str_chars_count(str_slice(window_text, line_byte_start, local_start))', None, 'R8')]
ITEMS += [
    dict(src=SN, path='fn fmt_snippet_window_with_mapping_or_fallback', id='fmt_snippet_window_with_mapping_or_fallback#gutter', props=P,
         fragment=r'writeln!\(f, "\{display_row:>\w+\$\} \| \{line\}"\)\?;\s*if cur_row == row \{.*?\n        \}', fragment_flags='S',
         wrapper="fn source_and_caret_lines(f: &mut Fmt, display_row: usize, gutter_width: usize, line: &str, cur_row: usize, row: usize, window_text: &str, local_start: usize, msg: &str) -> Result<(), FmtErrorC> { {FRAG} Ok(()) }",
         pre_rewrites=_GUT_RW,
         requires=[('the_marker_offset_is_a_char_boundary_of_the_window', 'local_start <= window_text.spec_bytes().len() && boundary(window_text@, local_start as int)')],
         proofs=[dict(at='start', text='lemma_char_off_ends(window_text@);'),
                 dict(before_re=r'let caret_chars = ', text="lemma_slice_char_offs(window_text@, line_start_before(window_text.spec_bytes(), local_start as int), local_start as int);")],
         ensures=[('C17:the_caret_line_of_the_defined_here_window_has_the_gutter_of_the_source_line_above_it_so_the_marker_stands_under_the_reported_column',
                   'r is Ok && cur_row == row ==> ({ let b = final(f).bars(); b.len() == old(f).bars().len() + 2 && b[b.len() - 1] == b[b.len() - 2] })')],
         canaries=['C17:the_caret_line_of_the_defined_here_window_has_the_gutter_of_the_source_line_above_it_so_the_marker_stands_under_the_reported_column']),
]
# ---- crop_window_text as a whole, against the sentence of C17 (harness only: the deductive contract above proves safety, bounds and the
# rebased marker; what the cropped TEXT is, is checked here on the real function text, bounded) ----
ITEMS += [
    dict(src=SN, path='fn crop_window_text', id='crop_window_text#lines', harness_only=True, bounded_only=True, trusted=True, props=[], bounded_props=P,
         bounded=dict(harness='bounded/crop_window.rs', items=[('src/de/snippet.rs', 'struct LineCrop'), ('src/de/snippet.rs', 'fn col_to_byte_offset_in_line'),
                                                                ('src/de/snippet.rs', 'fn crop_line_by_cols'), ('src/de/snippet.rs', 'fn is_terminal_snippet_clean'),
                                                                ('src/de/snippet.rs', 'fn sanitize_terminal_snippet_preserve_len'), ('src/de/snippet.rs', 'fn crop_window_text')]),
         ensures=[('C17:every_line_of_the_window_is_shown_cropped_to_the_radius_around_the_error_column', 'true'),
                  ('C17:the_marker_still_starts_at_the_character_of_the_reported_column', 'true')]),
]

# ---- F46: the label under the marker reflects message text (keys, values): it is sanitised like the snippet text, and it is the sanitised text
# that is handed to the renderer (the builder expression of the external crate becomes a call whose precondition says so, R8) ----
ITEMS += [
    dict(src=SN, path='impl Snippet/fn fmt_or_fallback', id='Snippet::fmt_or_fallback#label', props=P,
         fragment=r'let label = [^;]*;', fragment_flags='S',
         wrapper='fn label_fragment(msg: &str) -> String { {FRAG} label }',
         rewrites=[(r'sanitize_terminal_snippet_preserve_len\(msg\.to_string\(\)\)', 'sanitize_label(msg)', 1, 'R8')],
         ensures=[('C17:the_label_under_the_marker_is_sanitised_like_the_snippet_text', 'sanitized(r@)')],
         canaries=['C17:the_label_under_the_marker_is_sanitised_like_the_snippet_text']),
    dict(src=SN, path='impl Snippet/fn fmt_or_fallback', id='Snippet::fmt_or_fallback#annotation', props=P,
         fragment=r'AnnotationKind::Primary\s*\.span\(local_start\.\.local_end\)\s*\.label\([^()]*\)', fragment_flags='S',
         wrapper='fn annotation_fragment(msg: &str, label: String, local_start: usize, local_end: usize) { {FRAG}; }',
         pre_rewrites=[(r'AnnotationKind::Primary\s*\.span\(local_start\.\.local_end\)\s*\.label\(&label\)', 'primary_annotation(local_start, local_end, label.as_str())', None, 'R8'),
                       (r'AnnotationKind::Primary\s*\.span\(local_start\.\.local_end\)\s*\.label\(([^()]*)\)', r'primary_annotation(local_start, local_end, \1)', None, 'R8')],
         requires=[('the_label_was_sanitised', 'sanitized(label@)')],
         ensures=[('C17:it_is_the_sanitised_label_that_is_handed_to_the_renderer_never_the_raw_message', 'true')]),
]
