// ===== assumed contracts specific to unit `events` =====

// exact mirror of `std::borrow::Cow<'a, KeyFingerprint>` (rule R6)
enum CowFp<'a> { Borrowed(&'a KeyFingerprint), Owned(KeyFingerprint) }

impl<'a> CowFp<'a> {
    spec fn deref_spec(&self) -> KeyFingerprint {
        match self { CowFp::Borrowed(b) => **b, CowFp::Owned(o) => *o }
    }
    // `Cow::into_owned`: clone if borrowed
    #[verifier::external_body]
    fn into_owned(self) -> (r: KeyFingerprint)
        ensures fp_of(r) == fp_of(self.deref_spec()),
    { match self { CowFp::Borrowed(b) => b.clone(), CowFp::Owned(o) => o } }
}

impl<'a> CowStr<'a> {
    #[verifier::external_body]
    fn to_string(&self) -> (r: String)
        ensures r@ == self@,
    { self.inner.to_string() }
}

// `std::mem::take` on the two types it is used with (leaves `Default::default()` behind)
#[verifier::external_body]
fn mem_take_events<'a>(v: &mut Vec<Ev<'a>>) -> (r: Vec<Ev<'a>>)
    ensures r@ == old(v)@, final(v)@ == Seq::<Ev<'a>>::empty(),
{ std::mem::take(v) }

#[verifier::external_body]
fn mem_take_fingerprint(v: &mut KeyFingerprint) -> (r: KeyFingerprint)
    ensures r == *old(v), *final(v) == KeyFingerprint::Default,
{ std::mem::take(v) }

// `mem::replace(&mut v[i], x)`: swap one slot of a Vec
#[verifier::external_body]
fn vec_replace_ev<'a>(v: &mut Vec<Ev<'a>>, i: usize, x: Ev<'a>) -> (r: Ev<'a>)
    requires i < old(v)@.len(),
    ensures r == old(v)@[i as int], final(v)@ == old(v)@.update(i as int, x),
{ std::mem::replace(&mut v[i], x) }

// `Vec::extend(Vec)`: append all elements of `other`
#[verifier::external_body]
fn vec_extend_ev<'a>(v: &mut Vec<Ev<'a>>, other: Vec<Ev<'a>>)
    ensures final(v)@ == old(v)@ + other@,
{ v.extend(other) }

// `Cow::into_owned`
#[verifier::external_body]
fn cowstr_into_owned(v: CowStr<'_>) -> (r: String)
    ensures r@ == v@,
{ unimplemented!() }
