// ===== assumed contracts specific to unit `events` =====

// exact mirror of `std::borrow::Cow<'a, KeyFingerprint>` (rule R6)
enum CowFp<'a> { Borrowed(&'a KeyFingerprint), Owned(KeyFingerprint) }

impl<'a> CowFp<'a> {
    spec fn deref_spec(&self) -> KeyFingerprint {
        match self { CowFp::Borrowed(b) => **b, CowFp::Owned(o) => *o }
    }
    // `Cow::into_owned`: clone if borrowed
    #[verifier::external_body]
    fn into_owned(self) -> (r: KeyFingerprint)
        ensures fp_of(r) == fp_of(self.deref_spec()),
    { match self { CowFp::Borrowed(b) => b.clone(), CowFp::Owned(o) => o } }
}

impl<'a> CowStr<'a> {
    #[verifier::external_body]
    fn to_string(&self) -> (r: String)
        ensures r@ == self@,
    { self.inner.to_string() }
}

// `std::mem::take` on the two types it is used with (leaves `Default::default()` behind)
#[verifier::external_body]
fn mem_take_events<'a>(v: &mut Vec<Ev<'a>>) -> (r: Vec<Ev<'a>>)
    ensures r@ == old(v)@, final(v)@ == Seq::<Ev<'a>>::empty(),
{ std::mem::take(v) }

#[verifier::external_body]
fn mem_take_fingerprint(v: &mut KeyFingerprint) -> (r: KeyFingerprint)
    ensures r == *old(v), *final(v) == KeyFingerprint::Default,
{ std::mem::take(v) }

// `mem::replace(&mut v[i], x)`: swap one slot of a Vec
#[verifier::external_body]
fn vec_replace_ev<'a>(v: &mut Vec<Ev<'a>>, i: usize, x: Ev<'a>) -> (r: Ev<'a>)
    requires i < old(v)@.len(),
    ensures r == old(v)@[i as int], final(v)@ == old(v)@.update(i as int, x),
{ std::mem::replace(&mut v[i], x) }

// `Vec::extend(Vec)`: append all elements of `other`
#[verifier::external_body]
fn vec_extend_ev<'a>(v: &mut Vec<Ev<'a>>, other: Vec<Ev<'a>>)
    ensures final(v)@ == old(v)@ + other@,
{ v.extend(other) }

// `Cow::into_owned`
#[verifier::external_body]
fn cowstr_into_owned(v: CowStr<'_>) -> (r: String)
    ensures r@ == v@,
{ unimplemented!() }

// ---- shims for MA::next_key_seed (serde seed / visitor side is opaque) ----
#[verifier::external_body]
pub struct KeySeed { _p: () }      // stands for `K: DeserializeSeed<'de>`
#[verifier::external_body]
pub struct KeyVal { _p: () }       // stands for `K::Value`

impl MissingFieldLocationGuard {
    #[verifier::external_body]
    fn new(location: Location) -> MissingFieldLocationGuard { unimplemented!() }
    #[verifier::external_body]
    fn replace_location(&mut self, location: Location) { unimplemented!() }
}

impl CowFp<'_> {
    // `&*cow` / `*cow` (Deref)
    #[verifier::external_body]
    fn get(&self) -> (r: &KeyFingerprint)
        ensures *r == self.deref_spec(),
    { unimplemented!() }
}

// HashSet<KeyFingerprint> lookups: derived Hash / Eq of KeyFingerprint assumed lawful
trait AsFp { spec fn as_fp(&self) -> KeyFingerprint; }
impl AsFp for KeyFingerprint { spec fn as_fp(&self) -> KeyFingerprint { *self } }
impl<'a> AsFp for CowFp<'a> { spec fn as_fp(&self) -> KeyFingerprint { self.deref_spec() } }

#[verifier::external_body]
fn seen_contains<T: AsFp>(set: &HashSet<KeyFingerprint>, k: &T) -> (r: bool)
    ensures r == set@.contains(k.as_fp()),
{ unimplemented!() }
#[verifier::external_body]
fn seen_insert(set: &mut HashSet<KeyFingerprint>, k: KeyFingerprint)
    ensures final(set)@ == old(set)@.insert(k),
{ unimplemented!() }

// `fingerprint.stringy_scalar_value().map(|s| s.to_owned())` (only used for the error text)
#[verifier::external_body]
fn fp_display_key(k: &KeyFingerprint) -> Option<String> { unimplemented!() }

// `sv.eq_ignore_ascii_case("null")`
#[verifier::external_body]
fn string_eq_ignore_case_null(s: &String) -> bool { unimplemented!() }
#[verifier::external_body]
fn string_is_tilde(s: &String) -> bool { unimplemented!() }

// `events.drain(vs..ve).collect()`
#[verifier::external_body]
fn vec_drain_ev<'a>(v: &mut Vec<Ev<'a>>, a: usize, b: usize) -> (r: Vec<Ev<'a>>)
    requires a <= b <= old(v)@.len(),
    ensures r@ == old(v)@.subrange(a as int, b as int), final(v)@ == old(v)@.subrange(0, a as int) + old(v)@.subrange(b as int, old(v)@.len() as int),
{ unimplemented!() }

// derived `Clone` of Ev (assumed lawful)
#[verifier::external_body]
fn ev_clone<'a>(e: &Ev<'a>) -> (r: Ev<'a>)
    ensures r == *e,
{ unimplemented!() }

/// explicit form of the unsizing coercion `&mut ReplayEvents` -> `&mut dyn Events` (rule R34): same object, same cursor
#[verifier::external_body]
fn replay_as_dyn<'a, 'b>(r: &'b mut ReplayEvents<'a>) -> (d: &'b mut dyn Events<'a>)
    ensures d.rest() == old(r).rest(), final(r).rest() == final(d).rest(),
{ r }

// ---- MA::next_value_seed: the value seed (serde side) is opaque ----
#[verifier::external_body]
pub struct ValSeed { _p: () }     // stands for `Vv: DeserializeSeed<'de>`
#[verifier::external_body]
pub struct ValVal { _p: () }      // stands for `Vv::Value`
uninterp spec fn value_seed_result<'de>(seed: ValSeed, rest: Seq<Ev<'de>>, cfg: Cfg, reference_location: Location, defined_location: Location) -> Result<ValVal, Error>;
/// `seed.deserialize(YamlDeserializer::new(ev, cfg)).map_err(|e| attach_alias_locations_if_missing(e, r, d))` on the live source
#[verifier::external_body]
fn value_seed_on_live<'de>(seed: ValSeed, ev: &mut dyn Events<'de>, cfg: Cfg, reference_location: Location, defined_location: Location) -> (r: Result<ValVal, Error>)
    ensures r == value_seed_result(seed, old(ev).rest(), cfg, reference_location, defined_location),
{ unimplemented!() }
/// the same on a replay of recorded events
#[verifier::external_body]
fn value_seed_on_replay<'de>(seed: ValSeed, replay: &mut ReplayEvents<'de>, cfg: Cfg, reference_location: Location, defined_location: Location) -> (r: Result<ValVal, Error>)
    ensures r == value_seed_result(seed, old(replay).rest(), cfg, reference_location, defined_location),
{ unimplemented!() }

// ---- deserialize_map prologue: the map visitor is opaque ----
#[verifier::external_body] pub struct MapVis { _p: () }      // stands for `V: Visitor<'de>`
#[verifier::external_body] pub struct MapVisVal { _p: () }   // stands for `V::Value`
uninterp spec fn vis_map_empty(v: MapVis) -> Result<MapVisVal, Error>;
uninterp spec fn vis_map_live<'de>(v: MapVis, rest: Seq<Ev<'de>>, cfg: Cfg) -> Result<MapVisVal, Error>;
/// `visitor.visit_map(EmptyMap)`
#[verifier::external_body] fn visit_map_empty(visitor: MapVis) -> (r: Result<MapVisVal, Error>) ensures r == vis_map_empty(visitor) { unimplemented!() }
/// `visitor.visit_map(ma)`: the visitor drives `ma` through next_key_seed / next_value_seed (contracts above), which need
/// the map-access invariant to hold on entry
#[verifier::external_body]
fn visit_map_ma<'de, 'e>(visitor: MapVis, ma: MA<'de, 'e>) -> (r: Result<MapVisVal, Error>)
    requires ma_inv_parts(ma.pending@, ma.merge_stack@, old(ma.ev).rest()), !ma.have_key, !ma.flushing_merges, ma.pending_value is None,
        ma.pending@.len() == 0, ma.merge_stack@.len() == 0, ma.seen@.len() == 0,
    ensures r == vis_map_live(visitor, old(ma.ev).rest(), ma.cfg),
{ unimplemented!() }
#[verifier::external_body]
fn fast_hash_set_with_capacity(n: usize) -> (r: HashSet<KeyFingerprint>) ensures r@.len() == 0 { unimplemented!() }

// ---- enum variant payloads (serde side opaque): what the payload consumes is its own business ----
#[verifier::external_body] pub struct PayVal { _p: () }
/// `seed.deserialize(YamlDeserializer::new(ev, cfg)).map_err(|e| attach_alias_locations_if_missing(e, r, d))`
#[verifier::external_body]
fn variant_payload_newtype<'de>(seed: ValSeed, ev: &mut dyn Events<'de>, cfg: Cfg, reference_location: Location, defined_location: Location) -> (r: Result<PayVal, Error>)
{ unimplemented!() }
/// `YamlDeserializer::new(ev, cfg).deserialize_tuple(len, visitor)`
#[verifier::external_body]
fn variant_payload_tuple<'de>(ev: &mut dyn Events<'de>, cfg: Cfg, len: usize, visitor: MapVis) -> (r: Result<PayVal, Error>)
{ unimplemented!() }
/// `YamlDeserializer::new(ev, cfg).deserialize_struct("", fields, visitor)`
#[verifier::external_body]
fn variant_payload_struct<'de>(ev: &mut dyn Events<'de>, cfg: Cfg, fields: &'static [&'static str], visitor: MapVis) -> (r: Result<PayVal, Error>)
{ unimplemented!() }

// ---- deserialize_enum: notation dispatch (the enum visitor is opaque) ----
/// `simple_tagged_enum_name(raw_tag, tag)`: string surgery on the raw tag (std); an uninterpreted function here
uninterp spec fn sp_tagged_name(raw_tag: Option<CowStr<'_>>, tag: SfTag) -> Option<Seq<char>>;
/// `variants.contains(&name.as_str())`
uninterp spec fn sp_is_variant(variants: &'static [&'static str], name: Seq<char>) -> bool;
#[verifier::external_body]
fn variants_contain(variants: &'static [&'static str], name: &String) -> (r: bool) ensures r == sp_is_variant(variants, name@) { unimplemented!() }
/// `tag_name != _name`
#[verifier::external_body]
fn string_ne_str(a: &String, b: &str) -> (r: bool) ensures r == (a@ != b@) { unimplemented!() }
uninterp spec fn sp_looks_non_string_ev(value: Seq<char>, style: ScalarStyle) -> bool;
uninterp spec fn vis_enum_plain<'de>(v: MapVis, variant: Seq<char>, map_mode: bool, variant_location: Location, rest: Seq<Ev<'de>>, cfg: Cfg) -> Result<MapVisVal, Error>;
uninterp spec fn vis_enum_tagged<'de>(v: MapVis, variant: Seq<char>, variant_location: Location, payload: Seq<Ev<'de>>, cfg: Cfg) -> Result<MapVisVal, Error>;
/// `visitor.visit_enum(ea)`
#[verifier::external_body]
fn visit_enum_ea<'de, 'e>(visitor: MapVis, ea: EA<'de, 'e>) -> (r: Result<MapVisVal, Error>)
    ensures r == vis_enum_plain(visitor, ea.variant@, ea.map_mode, ea.variant_location, old(ea.ev).rest(), ea.cfg),
{ unimplemented!() }
/// `visitor.visit_enum(tagged_ea)`
#[verifier::external_body]
fn visit_enum_tagged<'de>(visitor: MapVis, ea: TaggedEA<'de>) -> (r: Result<MapVisVal, Error>)
    ensures r == vis_enum_tagged(visitor, ea.variant@, ea.variant_location, ea.replay.rest(), ea.cfg),
{ unimplemented!() }
/// `s.clone()` on a String
#[verifier::external_body] fn string_clone(s: &String) -> (r: String) ensures r@ == s@ { s.clone() }

// ---- attach_alias_locations_if_missing ----
/// `Error::location()`: the location an error already carries (a big or-pattern match over all variants; assumed)
pub uninterp spec fn err_loc(e: Error) -> Option<Location>;
/// `err.to_string()` (Display of the crate's Error; text only)
#[verifier::external_body]
fn error_to_string(e: &Error) -> (r: String) { unimplemented!() }

/// `v.sort()` / `v.sort_unstable()` (rule R41; no such call exists in the pinned tree): the result is some permutation of the
/// vector; which one is not modelled
#[verifier::external_body]
fn vec_sort_permutes<T>(v: &mut Vec<T>)
    ensures final(v)@.len() == old(v)@.len(), final(v)@.to_multiset() == old(v)@.to_multiset(),
{ unimplemented!() }
