"""Unit `location`: conversion of parser marks into Location (src/location.rs)."""
from contracts_types import *
NAME = 'location'
FEATURES = []
USES = []
PRELUDE = ['common.shim.rs']
SUBST = SUBST_COMMON
ITEMS = location_types() + parser_span_types() + location_fns() + [
    dict(src='src/location.rs', path='impl Span/fn byte_offset', props=['C16'],
         ensures=[('value', 'r == (if self.byte_info == (0u32, 0u32) { None } else { Some(self.byte_info.0 as u64) })')], canaries=['value']),
    dict(src='src/location.rs', path='impl Span/fn byte_len', props=['C16'],
         ensures=[('value', 'r == (if self.byte_info == (0u32, 0u32) { None } else { Some(self.byte_info.1 as u64) })')], canaries=['value']),
    dict(src='src/location.rs', path='impl Locations/fn same', props=['C16'],
         ensures=[('value', '''r == (if *location == Location::UNKNOWN { None } else {
                Some(Locations { reference_location: *location, defined_location: *location }) })''')], canaries=['value']),
]
