"""Unit `location`: conversion of parser marks into Location (src/location.rs)."""
from contracts_types import *
NAME = 'location'
FEATURES = []
USES = ['use vstd::string::*;']
PRELUDE = ['common.shim.rs', 'error.spec.rs', 'location.shim.rs']
SUBST = SUBST_COMMON
ITEMS = location_types() + parser_span_types() + location_fns() + [
    dict(src='src/location.rs', path='impl Span/fn byte_offset', props=['C16'],
         ensures=[('value', 'r == (if self.byte_info == (0u32, 0u32) { None } else { Some(self.byte_info.0 as u64) })')], canaries=['value']),
    dict(src='src/location.rs', path='impl Span/fn byte_len', props=['C16'],
         ensures=[('value', 'r == (if self.byte_info == (0u32, 0u32) { None } else { Some(self.byte_info.1 as u64) })')], canaries=['value']),
    dict(src='src/location.rs', path='impl Locations/fn same', props=['C16'],
         ensures=[('value', '''r == (if *location == Location::UNKNOWN { None } else {
                Some(Locations { reference_location: *location, defined_location: *location }) })''')], canaries=['value']),
]
# ---- a scanner error becomes a located Error (C16): where the parser says it happened, 1-based column ----
_SC = SAPHYR + 'scanner.rs'
ITEMS += budget_types() + error_types() + [
    dict(src=_SC, path='struct ScanError', derive=''),
    dict(src=_SC, path='impl ScanError/fn marker', ensures=[('value', '*r == self.mark')], vacuity=False),
    dict(src=_SC, path='impl ScanError/fn info', trusted=True, ensures=[('value', 'r@ == self.info@')]),
    dict(src='src/de_error.rs', path='impl Error/fn from_scan_error', props=['C16', 'C01'],
         rewrites=[(r'use crate::location::SpanIndex;', '', 1, 'R9'),
                   (r'crate::location::Span \{', 'Span {', 1, 'R6'),
                   (r'info\.to_ascii_lowercase\(\)\.contains\("unknown anchor"\)', 'str_mentions_unknown_anchor(info)', 1, 'R8'),
                   (r'info\.to_owned\(\)', 'str_to_owned_string(info)', 1, 'R8')],
         requires=[('coordinates_below_4g', 'err.mark.line <= u32::MAX && err.mark.col < u32::MAX && err.mark.offsets.chars <= u32::MAX')],
         ensures=[('C16:a_scanner_error_is_located_at_the_scanners_mark_with_a_one_based_column', '''({
                let loc = Location { line: err.mark.line as u32, column: (err.mark.col + 1) as u32,
                                     span: Span { offset: err.mark.offsets.chars as u32, len: 1, byte_info: (0u32, 0u32) } };
                match r { Error::UnknownAnchor { location } => location == loc,
                          Error::ExternalMessage { location, .. } => location == loc,
                          _ => false } })''')],
         canaries=['C16:a_scanner_error_is_located_at_the_scanners_mark_with_a_one_based_column']),
]
# ---- the public accessors of Span / Location / Locations (C16 observe_at: what a user reads off a reported location) ----
ITEMS += [
    dict(src='src/location.rs', path='impl Span/fn offset', props=['C16'], ensures=[('value', 'r == self.offset as u64')], canaries=['value']),
    dict(src='src/location.rs', path='impl Span/fn len', props=['C16'], ensures=[('value', 'r == self.len as u64')], canaries=['value']),
    dict(src='src/location.rs', path='impl Span/fn is_empty', props=['C16'], ensures=[('value', 'r == (self.len == 0)')]),
    dict(src='src/location.rs', path='impl Location/fn line', props=['C16'], ensures=[('value', 'r == self.line as u64')], canaries=['value']),
    dict(src='src/location.rs', path='impl Location/fn column', props=['C16'], ensures=[('value', 'r == self.column as u64')], canaries=['value']),
    dict(src='src/location.rs', path='impl Location/fn span', props=['C16'], ensures=[('value', 'r == self.span')]),
    dict(src='src/location.rs', path='impl Locations/fn primary_location', props=['C16'],
         ensures=[('C16:the_primary_location_of_a_pair_is_the_use_site_if_known_else_the_definition_site', '''r == (
                if self.reference_location != Location::UNKNOWN { Some(self.reference_location) }
                else if self.defined_location != Location::UNKNOWN { Some(self.defined_location) } else { None::<Location> })''')],
         canaries=['C16:the_primary_location_of_a_pair_is_the_use_site_if_known_else_the_definition_site']),
]
