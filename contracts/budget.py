"""Unit `budget`: src/budget.rs BudgetEnforcer against an independent count (budget.spec.rs)."""
NAME = 'budget'
FEATURES = []
USES = ['use std::collections::HashSet;', 'use vstd::std_specs::hash::*;']
PRELUDE = ['common.shim.rs', 'budget.spec.rs', 'budget.rel.rs']
SAPHYR = 'dep:saphyr-parser-bw-0.0.608/src/'
SUBST = [
    (r"Cow<'input, str>", "CowStr<'input>"),
    (r"Cow<'input, Tag>", "CowTag<'input>"),
    (r'SmallVec<\[ContainerState; 64\]>', 'Vec<ContainerState>'),
    (r'FastHashSet<usize>', 'HashSet<usize>'),
]
P = ['C07', 'C01', 'C08']
B = 'src/budget.rs'

SAME_BUT_CONTAINERS = ('frame', 'same_but_containers(old(self), final(self))')

ITEMS = [
    dict(src=SAPHYR + 'scanner.rs', path='enum ScalarStyle'),
    dict(src=SAPHYR + 'parser.rs', path='enum Event'),
    dict(src=B, path='struct Budget'),
    dict(src=B, path='enum BudgetBreach'),
    dict(src=B, path='struct BudgetReport'),
    dict(src=B, path='enum EnforcingPolicy', derive='#[derive(PartialEq, Eq, Structural)]'),
    dict(src=B, path='struct BudgetEnforcer'),
    dict(src=B, path='enum ContainerState', derive='#[derive(Clone, Copy)]'),

    # a fresh enforcer counts from zero, under the limits and the policy it was given (C07; the constructor the event source calls)
    dict(src=B, path='impl BudgetEnforcer/fn new', props=['C07', 'C09'],
         rewrites=[(r'BudgetReport::default\(\)', 'budget_report_default()', 1, 'R8'),
                   (r'FastHashSet::with_capacity\(256\)', 'anchor_set_with_capacity(256)', 1, 'R8'),
                   (r'SmallVec::new\(\)', 'Vec::new()', 1, 'R6')],
         ensures=[('C07:a_new_enforcer_has_counted_nothing', '''r.abs().events == 0 && r.abs().aliases == 0 && r.abs().nodes == 0 && r.abs().scalar_bytes == 0 && r.abs().merge_keys == 0
                    && r.abs().documents == 0 && r.abs().max_depth == 0 && r.abs().anchors =~= Set::<usize>::empty() && r.abs().stack =~= Seq::<Ctx>::empty()
                    && r.report.breached is None'''),
                  ('C07:a_new_enforcer_holds_the_limits_and_the_policy_it_was_given', 'r.budget == budget && r.policy == policy'),
                  ('state_is_consistent', 'r.inv() && r.room() && r.depth == 0')],
         canaries=['C07:a_new_enforcer_has_counted_nothing']),
    dict(src=B, path='impl BudgetReport/fn reset', props=['C07', 'C11'],
         ensures=[('all_counters_zero', '''*final(self) == (BudgetReport {
                breached: old(self).breached, documents: old(self).documents,
                events: 0, aliases: 0, anchors: 0, nodes: 0, max_depth: 0, total_scalar_bytes: 0, merge_keys: 0 })''')],
         canaries=['all_counters_zero']),

    dict(src=B, path='impl BudgetEnforcer/fn bump_nodes', props=P,
         requires=[('room', 'old(self).report.nodes < usize::MAX')],
         ensures=[
             ('effect', '''*final(self) == (BudgetEnforcer { report: BudgetReport {
                    nodes: (old(self).report.nodes + 1) as usize, ..old(self).report }, ..*old(self) })'''),
             ('verdict', '''match r {
                    Ok(()) => final(self).report.nodes <= old(self).budget.max_nodes,
                    Err(b) => b == (BudgetBreach::Nodes { nodes: final(self).report.nodes })
                              && final(self).report.nodes > old(self).budget.max_nodes }'''),
         ], canaries=['verdict']),

    dict(src=B, path='impl BudgetEnforcer/fn record_anchor', props=P,
         proofs=[dict(at='start', text='broadcast use vstd::std_specs::hash::group_hash_axioms;')],
         ensures=[
             ('effect', '''final(self).defined_anchors@ == add_anchor(old(self).defined_anchors@, anchor_id)
                && final(self).defined_anchors@.len() <= usize::MAX
                && final(self).report == (BudgetReport { anchors: final(self).defined_anchors@.len() as usize, ..old(self).report })
                && final(self).budget == old(self).budget && final(self).policy == old(self).policy
                && final(self).depth == old(self).depth && final(self).containers == old(self).containers'''),
             ('verdict', '''({ let fresh = anchor_id != 0 && !old(self).defined_anchors@.contains(anchor_id);
                  let n = final(self).defined_anchors@.len();
                  match r {
                    Ok(()) => !fresh || n <= old(self).budget.max_anchors,
                    Err(b) => fresh && n > old(self).budget.max_anchors && b == (BudgetBreach::Anchors { anchors: n as usize }) } })'''),
         ], canaries=['verdict']),

    dict(src=B, path='impl BudgetEnforcer/fn handle_scalar', props=P,
         requires=[('room', 'old(self).report.merge_keys < usize::MAX')],
         ensures=[
             ('merge_keys_counted', '''({ let is_mk = top_expecting_key(old(self).containers@) && !has_tag && *style is Plain && value@ == "<<"@;
                  &&& final(self).report == (BudgetReport { merge_keys: (old(self).report.merge_keys + if is_mk { 1int } else { 0int }) as usize, ..old(self).report })
                  &&& match r {
                        Ok(()) => final(self).containers@ =~= toggle_top(old(self).containers@)
                                  && (is_mk ==> final(self).report.merge_keys <= old(self).budget.max_merge_keys),
                        Err(b) => is_mk && b == (BudgetBreach::MergeKeys { merge_keys: final(self).report.merge_keys })
                                  && final(self).report.merge_keys > old(self).budget.max_merge_keys } })'''),
             ('frame', '''final(self).budget == old(self).budget && final(self).policy == old(self).policy
                && final(self).depth == old(self).depth && final(self).defined_anchors == old(self).defined_anchors'''),
         ], canaries=['merge_keys_counted']),

    dict(src=B, path='impl BudgetEnforcer/fn handle_alias', props=P,
         ensures=[('toggles_key_position', 'final(self).containers@ =~= toggle_top(old(self).containers@)'),
                  SAME_BUT_CONTAINERS], canaries=['toggles_key_position']),

    # F44: an alias that is expanded is followed by its replayed node, which takes the alias's place in the key/value phase of the enclosing
    # mapping; the phase recorded for the token itself is taken back (handle_alias toggled it, this toggles it again)
    dict(src=B, path='impl BudgetEnforcer/fn alias_will_be_replayed', props=P, optional=True,
         proofs=[dict(at='start', text='if self.inv() { lemma_toggle(self.containers@); }')],
         ensures=[('C07:the_phase_recorded_for_an_alias_token_is_taken_back_when_its_node_is_replayed_so_a_later_merge_key_is_still_a_key',
                   'final(self).containers@ =~= toggle_top(old(self).containers@) && toggle_top(toggle_top(old(self).containers@)) =~= old(self).containers@'),
                  ('keeps_the_enforcer_consistent', 'old(self).inv() ==> final(self).inv()'),
                  ('in_terms_of_the_independent_count', 'old(self).inv() ==> final(self).abs().stack =~= node_done(old(self).abs().stack)'),
                  ('counts_are_untouched', 'final(self).abs() == (Abs { stack: final(self).abs().stack, ..old(self).abs() })'),
                  SAME_BUT_CONTAINERS],
         canaries=['C07:the_phase_recorded_for_an_alias_token_is_taken_back_when_its_node_is_replayed_so_a_later_merge_key_is_still_a_key']),

    dict(src=B, path='impl BudgetEnforcer/fn entering_container', props=P,
         ensures=[('effect', 'final(self).containers@ =~= enter_stack(old(self).containers@) && r == enter_result(old(self).containers@)'),
                  SAME_BUT_CONTAINERS], canaries=['effect']),

    dict(src=B, path='impl BudgetEnforcer/fn leave_sequence', props=P,
         ensures=[('effect', '''match r {
                Ok(()) => old(self).containers@.len() > 0 && old(self).containers@.last() is Sequence
                          && final(self).containers@ =~= leave_stack(old(self).containers@),
                Err(b) => b == BudgetBreach::SequenceUnbalanced
                          && !(old(self).containers@.len() > 0 && old(self).containers@.last() is Sequence) }'''),
                  SAME_BUT_CONTAINERS], canaries=['effect']),

    dict(src=B, path='impl BudgetEnforcer/fn leave_mapping', props=P,
         ensures=[('effect', '''match r {
                Ok(()) => old(self).containers@.len() > 0 && old(self).containers@.last() is Mapping
                          && final(self).containers@ =~= leave_stack(old(self).containers@),
                Err(b) => b == BudgetBreach::SequenceUnbalanced
                          && !(old(self).containers@.len() > 0 && old(self).containers@.last() is Mapping) }'''),
                  SAME_BUT_CONTAINERS], canaries=['effect']),

    dict(src=B, path='impl BudgetEnforcer/fn finish_value', props=P,
         ensures=[('effect', 'final(self).containers@ =~= set_top_expecting(old(self).containers@, true)'),
                  SAME_BUT_CONTAINERS], canaries=['effect']),

    dict(src=B, path='impl BudgetEnforcer/fn observe', props=P,
         rewrites=[(r'self\.handle_scalar\(value, style,', 'self.handle_scalar(value.as_str(), style,', None, 'R15')],
         requires=[('accepted_so_far', 'old(self).observe_pre(*ev)')],
         proofs=[dict(at='start', text='''
             broadcast use vstd::std_specs::hash::group_hash_axioms;
             if old(self).inv() {
                 let cs = old(self).containers@;
                 lemma_toggle(cs); lemma_push(cs, true); lemma_push(cs, false);
                 if cs.len() > 0 { lemma_pop(cs); }
             }'''),
             dict(before_re=r'Ok\(\(\)\)\s*\}\s*$', label='ext_eq_hint', text='''
                 let a = abs_step(old(self).abs(), *ev, old(self).per_doc());
                 assert(self.abs().stack =~= a.stack);
                 assert(self.abs().anchors =~= a.anchors);''')],
         ensures=[
             ('config_unchanged', 'final(self).budget == old(self).budget && final(self).policy == old(self).policy && final(self).report.breached == old(self).report.breached'),
             ('C07:step_matches_independent_count', '''({
                  let a = abs_step(old(self).abs(), *ev, old(self).per_doc());
                  match r {
                    Ok(()) => final(self).abs() =~~= a && final(self).inv(),
                    Err(br) => true,
                  } })'''),
             ('C07:accept_only_within_limits',
              'r is Ok ==> accepted(old(self).abs(), *ev, old(self).budget, old(self).per_doc())'),
             ('C07:breach_names_exceeded_counter',
              'r is Err ==> rejected_for(r->Err_0, old(self).abs(), *ev, old(self).budget, old(self).per_doc())'),
             ('C07:no_false_rejection',
              'accepted(old(self).abs(), *ev, old(self).budget, old(self).per_doc()) ==> r is Ok'),
         ],
         canaries=['C07:step_matches_independent_count', 'C07:no_false_rejection']),

    dict(src=B, path='impl BudgetEnforcer/fn into_report', props=['C07'],
         ensures=[('report_with_anchor_count',
                   'r == (BudgetReport { anchors: self.defined_anchors@.len() as usize, ..self.report })')],
         canaries=['report_with_anchor_count']),

    dict(src=B, path='impl BudgetEnforcer/fn finalize', props=['C07', 'C01'],
         ensures=[('C07:ratio_rule_as_documented', '''({
                let anchors = self.defined_anchors@.len();
                r == (BudgetReport {
                    anchors: anchors as usize,
                    breached: if ratio_breached(self.report.aliases as nat, anchors, self.budget) {
                        Some(BudgetBreach::AliasAnchorRatio { aliases: self.report.aliases, anchors: anchors as usize })
                    } else { self.report.breached },
                    ..self.report }) })''')],
         canaries=['C07:ratio_rule_as_documented']),
]
# ---- the public budget check (C07 observe_at: budget::check_yaml_budget): the report is the independent count of the parser's events ----
ITEMS += [
    dict(src=B, path='fn check_yaml_budget', props=['C07', 'C01'],
         attrs='#[verifier::exec_allows_no_decreases_clause]',
         rewrites=[(r'Result<BudgetReport, ScanError>', 'Result<BudgetReport, ScanErr>', 1, 'R6'),
                   (r'let parser = Parser::new_from_str\(input\);', 'let mut parser = event_parser_from_str(input);', 1, 'R8'),
                   (r'for item in parser \{', 'while let Some(item) = parser.next_item() {', 1, 'R3'),
                   (r'let \(ev, _span\) = item\?;', 'let ev = match item { Ok(__e) => __e, Err(__x) => { return Err(__x); } };', 1, 'R18')],
         requires=[('limits_below_the_machine_maximum', '''budget.max_events < usize::MAX && budget.max_aliases < usize::MAX && budget.max_nodes < usize::MAX
                        && budget.max_merge_keys < usize::MAX && budget.max_documents < usize::MAX && budget.max_depth < usize::MAX''')],
         proofs=[dict(after_re=r'let mut enforcer = BudgetEnforcer::new\(budget, policy\);', ghost=True,
                      text='let ghost evs = parser.pending(); let ghost mut k: int = 0; let ghost per = policy == EnforcingPolicy::PerDocument;'),
                 dict(before_re=r'if let Err\(breach\) = enforcer\.observe\(&ev\)', text='assert(ev == evs[k]->Ok_0); k = k + 1;'),
                 dict(before_re=r'let mut report = enforcer\.into_report\(\);', label='C07:a_breach_is_reported_for_the_first_event_the_independent_count_rejects',
                      text='assert(!accepted(count_of(evs, k - 1, per), evs[k - 1]->Ok_0, budget, per) && rejected_for(breach, count_of(evs, k - 1, per), evs[k - 1]->Ok_0, budget, per));')],
         ensures=[('C07:a_clean_report_is_the_independent_count_of_every_event_of_the_text', '''({ let evs = parsed_events(input@); let per = policy == EnforcingPolicy::PerDocument;
                r is Ok && r->Ok_0.breached is None ==> (forall|i: int| 0 <= i < evs.len() ==> (#[trigger] evs[i]) is Ok)
                    && ({ let a = count_of(evs, evs.len() as int, per); let rep = r->Ok_0;
                          rep.events == a.events && rep.aliases == a.aliases && rep.nodes == a.nodes && rep.total_scalar_bytes == a.scalar_bytes
                          && rep.merge_keys == a.merge_keys && rep.documents == a.documents && rep.max_depth == a.max_depth && rep.anchors == a.anchors.len()
                          && within(a, budget, per) }) })'''),
                  ('C07:a_scan_error_is_passed_on', '''r is Err ==> exists|i: int| 0 <= i < parsed_events(input@).len() && (#[trigger] parsed_events(input@)[i]) is Err''')],
         loops={1: dict(header=r'^while let Some\(item\) = parser\.next_item\(\)$', invariant=[
                    ('position', '0 <= k <= evs.len() && parser.pending() =~= evs.skip(k) && evs == parsed_events(input@) && per == (policy == EnforcingPolicy::PerDocument)'),
                    ('all_ok_so_far', 'forall|i: int| 0 <= i < k ==> (#[trigger] evs[i]) is Ok'),
                    ('C07:the_enforcer_state_is_the_independent_count_of_the_events_so_far', '''enforcer.abs() =~~= count_of(evs, k, per) && enforcer.inv() && within(enforcer.abs(), budget, per)
                        && enforcer.budget == budget && enforcer.per_doc() == per && enforcer.report.breached is None'''),
                    ('limits', '''budget.max_events < usize::MAX && budget.max_aliases < usize::MAX && budget.max_nodes < usize::MAX
                        && budget.max_merge_keys < usize::MAX && budget.max_documents < usize::MAX && budget.max_depth < usize::MAX''')],
                        ensures=[('every_event_was_counted', 'k == evs.len()')])},
         canaries=['C07:a_clean_report_is_the_independent_count_of_every_event_of_the_text']),
    dict(src=B, path='fn parse_yaml', props=['C07'],
         rewrites=[(r'Result<bool, ScanError>', 'Result<bool, ScanErr>', 1, 'R6')],
         requires=[('limits_below_the_machine_maximum', '''budget.max_events < usize::MAX && budget.max_aliases < usize::MAX && budget.max_nodes < usize::MAX
                        && budget.max_merge_keys < usize::MAX && budget.max_documents < usize::MAX && budget.max_depth < usize::MAX''')],
         ensures=[('value', 'true')]),
]
