#!/bin/bash
# dev helper: generate unit $1 into /tmp/p/$1.rs and run verus
cd /verif && python3 -c "
import sys
from vc import weave
u=weave.load_unit('$1')
g=weave.build_unit(u,'${REPO:-/repo}', variant=${2:-None})
open('/tmp/p/$1.rs','w').write(g.text)
" && cd /tmp/p && verus $1.rs --multiple-errors 10 ${VARGS} 2>&1 | grep -v "^\[rust_verify"
